"""Plain pytest wrapper: every stored replay (replays/kept/*.json) is re-executed WITHOUT the explorer through
`./check Cxx --replay file`.  A replay whose violation class is an *open* known finding must still reproduce (exit 1);
every other stored replay documents a repaired defect or a demonstration patch and must not reproduce on this tree (exit 0).

    /venv/bin/python -m pytest -q /verif/replays/test_replays.py
"""
import glob, json, os, subprocess
import pytest

HERE = os.path.dirname(os.path.abspath(__file__))
VERIF = os.path.dirname(HERE)
OPEN = {(f["property"], f["key"]) for f in json.load(open(os.path.join(VERIF, "known_findings.json")))["findings"] if f["status"] == "open"}
FILES = sorted(glob.glob(os.path.join(HERE, "kept", "*.json")))


@pytest.mark.parametrize("path", FILES, ids=[os.path.basename(p) for p in FILES])
def test_replay(path):
    d = json.load(open(path))
    r = subprocess.run([os.path.join(VERIF, "check"), d["property"], "--replay", path], capture_output=True, text=True, timeout=600)
    expect = 1 if (d["property"], d["key"]) in OPEN else 0
    assert r.returncode == expect, r.stdout[-1500:] + r.stderr[-500:]
