#!/bin/bash
# tools/allquick.sh [seed]  -- all 20 quick checks sequentially, one summary line each; exit status = number of non-zero exits
cd /verif; seed=${1:-0}; bad=0
for i in $(seq -w 1 20); do
  out=$(VERIF_SEED=$seed VERIF_OUT=${VERIF_OUT:-/tmp/allquick_$seed} ./check C$i --tier quick 2>&1); st=$?
  echo "$out" | grep -v "^KNOWN-FINDING\|dgstrf" | tail -1 | cut -c1-160
  [ $st -ne 0 ] && { echo "  ^^ exit=$st"; echo "$out" | grep "^VIOLATION\|HARNESS" | head -3 | cut -c1-300; bad=$((bad+1)); }
done
rm -rf /tmp/allquick_$seed
echo "non-zero exits: $bad"; exit $bad
