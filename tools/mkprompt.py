import json, sys
pid, wt = sys.argv[1], sys.argv[2]
p = [json.loads(l) for l in open('/verif/properties.jsonl')]
d = [x for x in p if x['id'] == pid][0]
t = open('/verif/tools/agent_prompt.txt').read()
print(t.replace('{WT}', wt).replace('{ID}', pid).replace('{TITLE}', d['title']).replace('{STATEMENT}', d['statement'])
      .replace('{QUANT}', d['quantifier']['text']).replace('{FILES}', ', '.join(d['anchors']['files'])))
