#!/usr/bin/env python3
"""tools/mkresults.py <stream.tsv>...  -- merges the regression streams written by tools/run_mutants.sh into
mutants/RESULTS.tsv (property, patch, exit, first violation key); a seed that no stream contains is taken from the
check_output.txt that tools/keep_seed.sh / tools/mut.sh wrote for it."""
import glob, os, re, sys
rows = {}
for f in sys.argv[1:]:
    for line in open(f):
        p = line.rstrip("\n").split("\t")
        if len(p) < 4 or not p[2]:
            continue
        rows[os.path.normpath(p[1])] = (p[0], os.path.normpath(p[1]), p[2], p[3])
os.chdir("/verif")
for d in sorted(glob.glob("seeded/*/")):
    name = os.path.basename(os.path.dirname(d)); prop = name.split("-")[0]
    f = d + "patch.diff"
    for alt in ("patch_rebased.diff", "patch_on_prefix_tree.diff"):
        if os.path.exists(d + alt):
            f = d + alt
    f = os.path.normpath(f)
    if f in rows:
        continue
    old = os.path.normpath(d + "patch.diff")
    if old in rows and f == old:
        continue
    co = d + "check_output.txt"
    if not os.path.exists(co):
        continue
    txt = open(co).read()
    ex = re.findall(r"exit=(\d+)", txt)
    key = re.search(r"^VIOLATION[^\n]*\n\s+key=(\S+)", txt, re.M) or re.search(r"key=(\S+)", txt)
    rows.pop(old, None)
    rows[f] = (prop, f, "exit=%s" % (ex[-1] if ex else "?"), "key=%s" % key.group(1) if key else "")
out = sorted(rows.values(), key=lambda r: (r[0], r[1]))
with open("mutants/RESULTS.tsv", "w") as fh:
    for r in out:
        fh.write("\t".join(r) + "\n")
bad = [r for r in out if r[2] != "exit=1"]
print("%d patches, %d not detected" % (len(out), len(bad)))
for r in bad:
    print("  NOT DETECTED:", r)
