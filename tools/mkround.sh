#!/bin/bash
# tools/mkround.sh <suffix> <Cxx>...  -- worktree + prompt for a further seeding round; the prompt lists what earlier seeds of that property needed
suf=$1; shift
for id in "$@"; do
  /verif/tools/mkwt.sh $id $suf > /tmp/wt/prompt_${id}${suf}.txt
  python3 - "$id" "$suf" <<'PY'
import json, glob, sys
pid, suf = sys.argv[1], sys.argv[2]
needs = []
for p in sorted(glob.glob('/verif/seeded/%s-*/meta.json' % pid)):
    needs.append(json.load(open(p))["needs_to_manifest"])
with open('/tmp/wt/prompt_%s%s.txt' % (pid, suf), 'a') as f:
    f.write("\n\nADDITIONAL CONSTRAINT: earlier changes for this property already covered the following situations; choose a DIFFERENT mechanism in a different part of the code the property depends on, needing a different kind of input:\n")
    for n in needs:
        f.write("  - " + n + "\n")
PY
done
