#!/bin/bash
# tools/mut.sh <patch.diff> <Cxx> [tier]  -- apply a patch to a scratch copy of /repo/wntr and run one check on it
set -u
patch=$(readlink -f "$1"); prop=$2; tier=${3:-quick}
scratch=$(mktemp -d /tmp/mut-XXXXXX)
trap 'rm -rf "$scratch"' EXIT
mkdir -p "$scratch/repo" && rsync -a --exclude tests --exclude "darwin*" --exclude "windows*" --exclude __pycache__ /repo/wntr "$scratch/repo/" && mkdir -p "$scratch/repo/examples" && rsync -a /repo/examples/networks "$scratch/repo/examples/"
cd "$scratch/repo" && git init -q . && git apply "$patch" || { echo "PATCH DOES NOT APPLY"; exit 3; }
cd /verif && VERIF_REPO="$scratch/repo" VERIF_OUT="$scratch/out" ./check "$prop" --tier "$tier" 2>&1 | grep -v dgstrf | cut -c1-400 | tail -${MUT_LINES:-8}; st=${PIPESTATUS[0]}; if [ -n "${MUT_KEEP:-}" ]; then mkdir -p "$MUT_KEEP"; for f in "$scratch"/out/replays/*.json; do [ -f "$f" ] && cp "$f" "$MUT_KEEP/"; done; fi; echo "exit=$st"; exit 0
