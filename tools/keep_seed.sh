#!/bin/bash
# tools/keep_seed.sh <Cxx> <name> "<needs>" "<pytest files to re-run>"  -- validate an agent's seeded change in /tmp/wt/<Cxx> and store it
set -u
id=$1; name=$2; needs=$3; tests=${4:-}
wt=${5:-/tmp/wt/$id}; out=/verif/seeded/$name
mkdir -p "$out"
cd "$wt" || exit 2
git diff > "$out/patch.diff"
cp demo_*.py "$out/" 2>/dev/null
demo=$(ls demo_*.py | head -1)
/venv/bin/python "$demo" > "$out/demo_with_change.txt" 2>&1; with=$?
git diff > /tmp/wt/.keep_$id.diff; git checkout -- wntr
if git diff --quiet -- '*.cpp' '*.hpp' 2>/dev/null && ! grep -q '\.cpp\|\.hpp' "$out/patch.diff"; then :; else /venv/bin/python setup.py build_ext --inplace >/dev/null 2>&1; fi
/venv/bin/python "$demo" > "$out/demo_without_change.txt" 2>&1; without=$?
git apply /tmp/wt/.keep_$id.diff
if grep -q '\.cpp\|\.hpp' "$out/patch.diff"; then /venv/bin/python setup.py build_ext --inplace >/dev/null 2>&1; fi
tres="not re-run"
if [ -n "$tests" ]; then tres=$(/venv/bin/python -m pytest -q -p no:cacheprovider $tests 2>&1 | tail -1); fi
cd /verif
chk=$(MUT_LINES=60 tools/mut.sh "$out/patch.diff" "$id" quick 2>&1)
echo "$chk" > "$out/check_output.txt"
caught=$(echo "$chk" | grep -c '^VIOLATION')
cat > "$out/meta.json" <<EOF
{
 "property": "$id",
 "needs_to_manifest": "$needs",
 "demo_exit_with_change": $with,
 "demo_exit_without_change": $without,
 "existing_tests_rerun": "$tests",
 "existing_tests_result": "$tres",
 "check_cmd": "tools/mut.sh seeded/$name/patch.diff $id quick",
 "check_caught": $( [ "$caught" -gt 0 ] && echo true || echo false )
}
EOF
cat "$out/meta.json"; echo "$chk" | tail -4
