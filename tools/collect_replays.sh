#!/bin/bash
# tools/collect_replays.sh -- one replay file per known finding into replays/kept:
#  * open findings: taken from a quick run of their property on /repo
#  * fixed findings: taken from the quick run of the property on a scratch copy with the fix reverted (mutants/Cxx/revert_*.diff)
# replays/test_replays.py then re-executes every kept file without the explorer.
cd /verif
tmp=$(mktemp -d /tmp/replays-XXXXXX); trap 'rm -rf "$tmp"' EXIT
for p in $(python3 -c "
import json
print(' '.join(sorted({f['property'] for f in json.load(open('known_findings.json'))['findings'] if f['status']=='open'})))"); do
  VERIF_OUT="$tmp/open" ./check $p --tier quick >/dev/null 2>&1
done
for d in mutants/C*/revert_*.diff; do
  prop=$(basename $(dirname $d))
  MUT_KEEP="$tmp/fixed" tools/mut.sh $d $prop quick >/dev/null 2>&1
done
python3 - "$tmp" <<'PY'
import json, glob, os, shutil, sys
tmp = sys.argv[1]
keys = {(f["property"], f["key"]) for f in json.load(open("known_findings.json"))["findings"]}
n = 0
for p in glob.glob(tmp + "/open/replays/*.json") + glob.glob(tmp + "/fixed/*.json"):
    d = json.load(open(p))
    if (d["property"], d["key"]) in keys:
        shutil.copy(p, "replays/kept/" + os.path.basename(p)); n += 1
print("kept", n, "replays")
PY
