#!/bin/bash
# tools/mkwt.sh <Cxx> [suffix] -- scratch git worktree of /repo HEAD under /tmp/wt/<Cxx><suffix> with the built extensions, prints the agent prompt
set -u
id=$1; suf=${2:-}; wt=/tmp/wt/$id$suf
git -C /repo worktree add --detach -f "$wt" HEAD >/dev/null 2>&1 || { echo "worktree failed"; exit 2; }
cp /repo/wntr/sim/aml/_evaluator*.so "$wt/wntr/sim/aml/"
cp /repo/wntr/sim/network_isolation/_network_isolation*.so "$wt/wntr/sim/network_isolation/"
/venv/bin/python /verif/tools/mkprompt.py "$id" "$wt"
