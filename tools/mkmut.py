"""tools/mkmut.py <out.diff> <path> <<< python-literal (old, new)   -- helper to create a one-hunk patch against /repo"""
import difflib, sys, ast
out, path = sys.argv[1], sys.argv[2]
old, new = ast.literal_eval(sys.stdin.read())
s = open('/repo/' + path, newline='').read()
assert s.count(old) >= 1, "old text not found"
t = s.replace(old, new, 1)
open(out, 'w', newline='').write(''.join(difflib.unified_diff(s.splitlines(1), t.splitlines(1), 'a/' + path, 'b/' + path)))
print("wrote", out)
