#!/bin/bash
# tools/run_mutants.sh [Cxx ...] -- runs every demonstration patch (mutants/ and seeded/) against its property's quick check
# and writes mutants/RESULTS.tsv : property <tab> patch <tab> exit <tab> first violation key
cd /verif
props=${@:-$(ls mutants | grep "^C" | tr "\n" " ")}
for p in $props; do
  for m in mutants/$p/*.diff; do
    [ -f "$m" ] || continue
    out=$(VERIF_PROCS=${VERIF_PROCS:-6} MUT_LINES=40 tools/mut.sh "$m" "$p" quick 2>&1)
    ex=$(echo "$out" | grep -o 'exit=[0-9]*' | tail -1)
    key=$(echo "$out" | grep -o 'key=[^ ]*' | head -1)
    printf "%s\t%s\t%s\t%s\n" "$p" "$m" "$ex" "$key"
  done
done
for d in seeded/*/; do
  n=$(basename $d); p=${n%%-*}
  case " $props " in *" $p "*) ;; *) continue;; esac
  f=$d/patch.diff; [ -f $d/patch_rebased.diff ] && f=$d/patch_rebased.diff; [ -f $d/patch_on_prefix_tree.diff ] && f=$d/patch_on_prefix_tree.diff
  out=$(VERIF_PROCS=${VERIF_PROCS:-6} MUT_LINES=40 tools/mut.sh "$f" "$p" quick 2>&1)
  ex=$(echo "$out" | grep -o 'exit=[0-9]*' | tail -1)
  key=$(echo "$out" | grep -o 'key=[^ ]*' | head -1)
  printf "%s\t%s\t%s\t%s\n" "$p" "$f" "$ex" "$key"
done
