"""Exhaustive generators of small multigraphs (canonical under relabelling of the interchangeable nodes)."""
import itertools


def multigraphs(n_fixed, n_free, max_links, max_mult=2, no_fixed_fixed=True, min_links=1, connected=True):
    """nodes 0..n_fixed-1 are distinguishable (sources), the next n_free nodes are interchangeable (junctions).
    yields sorted tuples of (a,b) pairs with a<b, multiplicity <= max_mult, one representative per isomorphism class."""
    n = n_fixed + n_free
    pairs = [(a, b) for a in range(n) for b in range(a + 1, n) if not (no_fixed_fixed and b < n_fixed)]
    seen = set()
    perms = list(itertools.permutations(range(n_fixed, n)))
    for L in range(min_links, max_links + 1):
        for combo in itertools.combinations_with_replacement(pairs, L):
            if any(combo.count(p) > max_mult for p in set(combo)):
                continue
            if connected and not _connected(n, combo):
                continue
            key = min(tuple(sorted(tuple(sorted((_m(p, a, n_fixed), _m(p, b, n_fixed)))) for a, b in combo)) for p in perms)
            if key in seen:
                continue
            seen.add(key)
            yield key


def _m(perm, x, nf):
    return x if x < nf else perm[x - nf]


def _connected(n, edges):
    adj = {i: set() for i in range(n)}
    for a, b in edges:
        adj[a].add(b); adj[b].add(a)
    seen, st = {0}, [0]
    while st:
        u = st.pop()
        for v in adj[u]:
            if v not in seen:
                seen.add(v); st.append(v)
    return len(seen) == n
