"""Explicit-state breadth-first search over operation histories of the real implementation.

A *state* is identified by the history that reaches it (live objects rarely copy); every expansion rebuilds a fresh
real object by replaying the history, then applies every enabled operation to a fresh replay, evaluates the invariant /
reference model on the successor and returns its canonical key.  The parent deduplicates on canonical keys
(level-synchronous BFS, so the first history found for a state is a shortest one) and dispatches the next level to the
worker pool.  Every transition counted here has been executed on the implementation, so
traces_validated_against_impl == transitions."""
from . import pool


def search(run, mod, starts, max_depth, seed=0, cap_states=None):
    """mod.expand(hist) -> {"key": canonical key of the state reached by hist (str), "viol": [...],
                            "succ": [{"op":..., "key": str, "viol": [...], "nontrivial": bool, "outcome": str}, ...]}
    hist = {"start": <label>, "ops": [...]}"""
    seen = {}
    frontier = []
    states = transitions = 0
    depth_reached = 0
    samples = []
    init = pool.run_cases(mod.expand, [{"start": s, "ops": [], "init_only": True} for s in starts], seed=seed)
    for s, r in zip(starts, init):
        h = {"start": s, "ops": []}
        _collect(run, h, r)
        if r.get("key") is not None and r["key"] not in seen:
            seen[r["key"]] = h
            frontier.append(h)
            states += 1
    per_level = []
    capped = False
    for depth in range(1, max_depth + 1):
        if not frontier:
            break
        res = pool.run_cases(mod.expand, frontier, seed=seed + depth)
        nxt = []
        ntrans = 0
        for h, r in zip(frontier, res):
            _collect(run, h, r)
            for sc in r.get("succ") or []:
                ntrans += 1
                h2 = {"start": h["start"], "ops": h["ops"] + [sc["op"]]}
                run.evaluations += 1
                if sc.get("nontrivial"):
                    run.nontrivial.add(pool_key(h2))
                o = sc.get("outcome")
                if o is not None:
                    run.outcomes[o] = run.outcomes.get(o, 0) + 1
                for v in sc.get("viol") or []:
                    run.violation(v["key"], v["what"], h2, v.get("detail"))
                if sc.get("viol") or sc.get("key") is None:
                    continue            # a violating state is reported, not expanded further
                if sc["key"] not in seen:
                    seen[sc["key"]] = h2
                    if cap_states and states >= cap_states:
                        capped = True
                        continue
                    nxt.append(h2)
                    states += 1
        transitions += ntrans
        per_level.append({"depth": depth, "expanded": len(frontier), "transitions": ntrans, "new_states": len(nxt)})
        depth_reached = depth
        if nxt:
            samples.append(nxt[len(nxt) // 2])
        frontier = nxt
    if capped:
        run.caps.append("state cap %d reached" % cap_states)
    run.extra.update(states=states, transitions=transitions, traces_validated_against_impl=transitions,
                     max_depth=depth_reached, levels=per_level, unexpanded_frontier=len(frontier))
    run.samples = (samples or [{"start": s, "ops": []} for s in starts])[:8]
    return seen


def pool_key(h):
    import hashlib, json
    return hashlib.sha1(json.dumps(h, sort_keys=True).encode()).hexdigest()


def _collect(run, h, r):
    for v in r.get("viol") or []:
        run.violation(v["key"], v["what"], h, v.get("detail"))
    for k, n in (r.get("counts") or {}).items():
        run.count(k, n)
