"""./check Cxx [--tier quick|thorough] [--replay file] [--procs n]   |   ./check --setup"""
import argparse, importlib, json, os, sys, time


def main():
    ap = argparse.ArgumentParser()
    ap.add_argument("prop", nargs="?")
    ap.add_argument("--tier", default=os.environ.get("VERIF_TIER", "quick"), choices=["quick", "thorough"])
    ap.add_argument("--replay")
    ap.add_argument("--setup", action="store_true")
    ap.add_argument("--procs", type=int)
    a = ap.parse_args()
    if a.procs:
        os.environ["VERIF_PROCS"] = str(a.procs)
    try:
        seed = int(os.environ.get("VERIF_SEED", "0"))
    except ValueError:
        seed = 0
    if a.replay:
        a.replay = os.path.abspath(a.replay)
    from . import stage
    t0 = time.time()
    base = stage.stage()
    if a.setup:
        print("setup ok: staged and compiled in %.1fs (%s)" % (time.time() - t0, base))
        return 0
    if not a.prop:
        ap.error("property id required")
    pid = a.prop.upper()
    from . import report, pool  # noqa
    mod = importlib.import_module("vf.props.%s" % pid.lower())
    if a.replay:
        return replay(mod, pid, a.replay)
    run = report.Run(pid, a.tier, seed, mod.LEVEL)
    run.rule = mod.RULE
    run.assumptions = list(getattr(mod, "ASSUMPTIONS", []))
    if hasattr(mod, "run"):
        mod.run(run, a.tier, seed)
    else:
        generic(mod, run, a.tier, seed)
    return run.finish()


def generic(mod, run, tier, seed):
    """stateless enumeration: every spec of mod.cases(tier) is executed on the real code by mod.run_case."""
    from . import pool, report
    specs = mod.cases(tier)
    # the enumeration must not contain duplicates (distinct cases are counted by canonical spec)
    run.sample(specs)
    res = pool.run_cases(mod.run_case, specs, seed=seed)
    for s, r in zip(specs, res):
        run.add_result(s, r)
    recheck(mod, run, specs, res, seed)


def recheck(mod, run, specs, res, seed):
    """determinism: every violating representative and a fixed 1 % slice are re-executed in fresh workers
    and must reproduce the same violation keys."""
    from . import pool
    idx = [i for i, r in enumerate(res) if r.get("viol")]
    keyset = {}
    pick = []
    for i in idx:  # one representative per key
        for v in res[i]["viol"]:
            if v["key"] not in keyset:
                keyset[v["key"]] = i
                pick.append(i)
    pick = sorted(set(pick) | set(range(0, len(specs), 100)))
    again = pool.run_cases(mod.run_case, [specs[i] for i in pick], seed=seed + 1)
    run.determinism_reruns = len(pick)
    for i, r2 in zip(pick, again):
        k1 = sorted(v["key"] for v in res[i].get("viol") or [])
        k2 = sorted(v["key"] for v in r2.get("viol") or [])
        if k1 != k2:
            sys.stderr.write("HARNESS-ERROR: nondeterministic verdict on %s: %s vs %s\n" % (json.dumps(specs[i])[:300], k1, k2))
            run.count("harness_nondeterminism")
            run.extra["nondeterministic"] = True


def replay(mod, pid, path):
    from . import stage
    stage.workdir()
    d = json.load(open(path))
    r = mod.run_case(d["spec"])
    keys = [v["key"] for v in r.get("viol") or []]
    for v in r.get("viol") or []:
        print("  %s :: %s" % (v["key"], v["what"]))
        if v.get("detail"):
            print("     " + str(v["detail"])[:1500].replace("\n", "\n     "))
    if d.get("key") in keys:
        print("VIOLATION property=%s replay=%s" % (pid, os.path.abspath(path)))
        return 1
    print("replay: violation %s not reproduced (%d other violation(s))" % (d.get("key"), len(keys)))
    return 1 if keys else 0


if __name__ == "__main__":
    try:
        code = main()
    except SystemExit:
        raise
    except BaseException:  # noqa - an unexpected failure of the harness itself is exit 2, never a verdict about the property
        import traceback
        traceback.print_exc()
        sys.stderr.write("HARNESS-ERROR: the check did not run to completion\n")
        code = 2
    sys.exit(code)
