"""Stage /repo/wntr into a scratch directory and compile the two C++ extensions from the staged
sources, so that every check runs the *current working tree* (Python and C++) without writing to /repo."""
import atexit, hashlib, os, shutil, subprocess, sys, sysconfig, tempfile

REPO = os.environ.get("VERIF_REPO", "/repo")
VERIF = os.path.dirname(os.path.dirname(os.path.abspath(__file__)))
CACHE = os.path.join(VERIF, ".cache", "ext")

EXTS = {
    "_evaluator": ("wntr/sim/aml", ["evaluator.cpp", "evaluator_wrap.cpp"], ["evaluator.hpp", "numpy.i"]),
    "_network_isolation": ("wntr/sim/network_isolation", ["network_isolation.cpp", "network_isolation_wrap.cpp"],
                           ["network_isolation.hpp"]),
}
_stage_dir = None


def _ignore(d, names):
    out = []
    for n in names:
        if n in ("tests", "__pycache__") or n.endswith(".pyc"):
            out.append(n)
        elif n.endswith(".so") and ("sim/aml" in d or "network_isolation" in d):
            out.append(n)
        elif n in ("darwin-arm", "darwin-formula", "darwin-x64", "windows-x64"):
            out.append(n)
    return out


def _numpy_include():
    import numpy
    return numpy.get_include()


def _build_ext(name, srcdir):
    sub, srcs, hdrs = EXTS[name]
    h = hashlib.sha256()
    for f in srcs + hdrs:
        p = os.path.join(srcdir, sub, f)
        if os.path.exists(p):
            h.update(f.encode()); h.update(open(p, "rb").read())
    h.update(sys.version.encode()); h.update(b"g++ -O2 v1")
    key = h.hexdigest()[:24]
    suffix = sysconfig.get_config_var("EXT_SUFFIX")
    cached = os.path.join(CACHE, key, name + suffix)
    if not os.path.exists(cached):
        os.makedirs(os.path.dirname(cached), exist_ok=True)
        tmp = cached + ".%d.tmp" % os.getpid()
        cmd = ["g++", "-O2", "-shared", "-fPIC", "-std=c++11", "-w",
               "-I" + sysconfig.get_paths()["include"], "-I" + _numpy_include(), "-I" + os.path.join(srcdir, sub)]
        cmd += [os.path.join(srcdir, sub, s) for s in srcs] + ["-o", tmp]
        r = subprocess.run(cmd, capture_output=True, text=True)
        if r.returncode != 0:
            sys.stderr.write("HARNESS-ERROR: compiling %s failed\n%s\n" % (name, r.stderr[-4000:]))
            sys.exit(2)
        os.replace(tmp, cached)
        _prune()
    try:
        os.utime(os.path.dirname(cached))        # mark as recently used (pruning goes by age)
    except OSError:
        pass
    return cached, suffix


def _prune(keep=16, min_age=2 * 3600):
    """drops cached builds beyond the `keep` most recently used ones, but never one used within the last two hours:
    several checks (e.g. demonstration patches on scratch copies) may run side by side and must not pull the
    extension of another run from under it."""
    import time
    try:
        ds = sorted((os.path.join(CACHE, d) for d in os.listdir(CACHE)), key=os.path.getmtime)
        now = time.time()
        for d in ds[:-keep]:
            if now - os.path.getmtime(d) > min_age:
                shutil.rmtree(d, ignore_errors=True)
    except OSError:
        pass


def stage():
    """returns the stage directory (already first on sys.path)."""
    global _stage_dir
    if _stage_dir:
        return _stage_dir
    base = tempfile.mkdtemp(prefix="wntr-verif-")
    _stage_dir = base
    pid = os.getpid()

    def _cleanup():
        if os.getpid() == pid:
            shutil.rmtree(base, ignore_errors=True)
    atexit.register(_cleanup)
    shutil.copytree(os.path.join(REPO, "wntr"), os.path.join(base, "wntr"), ignore=_ignore, symlinks=True)
    from concurrent.futures import ThreadPoolExecutor
    with ThreadPoolExecutor(2) as ex:
        res = list(ex.map(lambda n: (n, _build_ext(n, base)), EXTS))
    for name, (cached, suffix) in res:
        for attempt in range(3):
            try:
                shutil.copy(cached, os.path.join(base, EXTS[name][0], name + suffix))
                break
            except FileNotFoundError:          # removed by a concurrent run between build and copy: build again
                if attempt == 2:
                    raise
                cached, suffix = _build_ext(name, base)
    work = os.path.join(base, "work")
    os.makedirs(work)
    os.chdir(work)
    sys.path.insert(0, base)
    import wntr
    import wntr.sim.aml.evaluator, wntr.sim.network_isolation.network_isolation  # noqa
    for m in (wntr, sys.modules["wntr.sim.aml._evaluator"],
              sys.modules["wntr.sim.network_isolation._network_isolation"]):
        if not os.path.abspath(m.__file__).startswith(base):
            sys.stderr.write("HARNESS-ERROR: %s not loaded from stage (%s)\n" % (m.__name__, m.__file__))
            sys.exit(2)
    return base


def workdir():
    """private per-process working directory inside the stage (EPANET temp files go to the CWD)."""
    d = os.path.join(_stage_dir, "work", "p%d" % os.getpid())
    os.makedirs(d, exist_ok=True)
    os.chdir(d)
    return d
