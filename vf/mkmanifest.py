"""Regenerates /verif/MANIFEST.json from the table below (run: /venv/bin/python -m vf.mkmanifest)."""
import json, os

VERIF = os.path.dirname(os.path.dirname(os.path.abspath(__file__)))
BASELINE = ("cd /repo && env -u WNTR_VERIF /venv/bin/python -m pytest -ra -q -p no:cacheprovider --timeout=900 "
            "--continue-on-collection-errors")
TB = ("trusted: CPython/numpy/scipy/pandas of /venv, g++, the reference model in vf/props/%s.py (written from the "
      "documentation, not from the code under test); bounded: nothing is claimed outside the enumerated alphabets/bounds "
      "printed in the evidence file")

# id -> (level, technique, text, note-extra)
CLAIMED = {
    "C17": ("exploration", "exhaustive enumeration of the full discrete conversion space (units x params x mass x order x containers) against an independent unit table",
            "every member of FlowUnits x HydParam/QualParam x MassUnits x reaction order x container type is executed on the real "
            "to_si/from_si and compared with an independently typed table; the discrete space is covered completely, values by a 5-point alphabet (linearity makes that sufficient)",
            "US zero-order wall coefficient area constant not judged"),
}
CLAIMED["C01"] = ("exploration", "deviation-bounded exhaustive enumeration of tiny networks (7 skeletons x all subsets of <=2 deviations), every run executed on WNTRSimulator, node-balance invariant on every reported step",
    "all skeleton x deviation-subset configurations inside the bound are simulated with the real simulator and the mass-balance identities are evaluated on the reported tables at every node and step; DD demand compared with an independent pattern evaluator",
    "non-converged runs are excluded and counted")
CLAIMED["C02"] = ("exploration", "exhaustive crossing of link kind x parameter alphabet x head-difference alphabet x HW approximation in an isolation rig, plus deviation-bounded enumeration of tiny networks; per-link law oracle chosen by reported status",
    "every link kind/status/parameter combination of the alphabets is simulated between fixed heads and inside the netspace networks; the documented head-flow relation is re-evaluated from reported flows and heads at every step",
    "two open known findings (pump reverse flow in infeasible placements); tolerances derived from Newton TOL and the documented smoothing terms")
CLAIMED["C09"] = ("exploration", "exhaustive enumeration of all small multigraphs x every closed-link subset x toggle schedules, each simulated; oracle = reference graph reachability over reported statuses + steady-state differential",
    "all connected multigraphs within the node/link bound (canonical under relabelling), all 2^L closed subsets and all single (thorough: double) toggle schedules are simulated on the real simulator (Python graph bookkeeping and the C++ search are both rebuilt from the tree)",
    "networks larger than the bound are not covered; pump/TCV variants only on link 0")
CLAIMED["C06"] = ("exploration", "fully crossed enumeration of a tank family (shape x init x tank-link kind x second link x demand pattern x step x leak), every run on WNTRSimulator with 'ALL' reporting; volume-integration and limit invariants on every pair of consecutive solved steps",
    "every configuration of the crossed alphabets is simulated; the volume identity is exact arithmetic on reported numbers (own cylinder / piecewise-linear curve reference), limits use the 2 s of flow the statement allows",
    "min-level clauses are not applied to a tank with an active leak (a leak is not a link; counted skips)")
CLAIMED["C07"] = ("exploration", "exhaustive crossing of (Pmin,Preq) x exponent x demand x override mode; dense pressure sweep of the compiled pdd residual (model seam) plus PDD simulations in every pressure regime (system seam)",
    "every parameter combination of the alphabets is built with create_hydraulic_model and its compiled pdd residual is swept over a 448-point pressure grid incl. points at both sides of all four branch edges; values, monotonicity, continuity and locality of overrides are judged against the documented curve",
    "values between grid points and parameters outside the alphabets are not covered; 1e-7 noise allowance (rounding of the smoothing cubics)")
CLAIMED["C08"] = ("exploration", "crossed enumeration of leak site x area/Cd x activity window x demand model x pressure regime x add/remove history x step, every run on WNTRSimulator with 'ALL' reporting; orifice-law, window, balance and never-leaked differential oracles",
    "every combination of the leak alphabets (junction and tank sites, simultaneous leaks, on/off-grid windows, negative pressure, add/remove/add histories) is simulated and every reported step is judged against Cd*A*sqrt(2gp), the activity window and the node balance",
    "areas/coefficients outside the alphabet and leaks on isolated nodes are not covered")
CLAIMED["C14"] = ("model_checking", "explicit-state breadth-first search over edit histories of the real WaterNetworkModel (5 start states, depth 3-4 quick / 4-6 thorough), canonical-state deduplication, plain-dict reference model deciding enabledness, expected refusal and every public view in every state",
    "every well-formed history of add/remove/reassign operations over a 3-node/2-link/pattern/3-curve/source/control alphabet up to the depth bound is executed on the real model; in every reached state all name lists, counts, typed iterators, describe(), link end nodes (incl. object identity), get_links_for_node, to_graph and the usage/orphaned/unused records of the node, pattern and curve registries are compared with a reference; removals of in-use elements must be refused and leave every view unchanged",
    "histories longer than the bound, more than 3 nodes / 2 links, and ill-formed calls (duplicate names, dangling references) are not covered")
CLAIMED["C15"] = ("model_checking", "exhaustive enumeration of expression trees (<=2 operators over the full operator/leaf alphabet, 3-4 over reduced ones) and of conditional constraints on a value grid against a dual-number reference, plus explicit-state BFS over add/remove/set-value/set_structure histories of a constraint pool with shared leaves and sub-expressions",
    "every tree of the stated alphabets is built through the library's operator overloading, compiled, and its residual and Jacobian row are compared at 36 grid points with an independent dual-number evaluation and with the library's direct Python evaluation; conditional constraints are probed at, below and above every bound; every history of the pool up to the depth bound is replayed on a real Model and residual length, index permutation, get_x, residuals and Jacobian are compared in every state",
    "expressions with more operators, other leaf values and points of discontinuity are not covered; C++ and Python sources are both rebuilt from the tree")
CLAIMED["C18"] = ("exploration", "exhaustive enumeration of all multigraphs up to 4 nodes/4 links (thorough 5/5) x every subset of the 2m valve positions (+ duplicated rows), union-find reference partition",
    "every (graph, valve layer) pair inside the bound is passed to valve_segments and valve_segment_attributes; the partition must equal the union-find partition induced by the layer (label-independent), sizes must count members, and num_surround / demand_increase / length_increase are recomputed from the reference partition",
    "graphs beyond the node/link bound and self-loops are not covered")
CLAIMED["C20"] = ("exploration", "crossed enumeration of pattern-length pairs x pattern step x pattern_start x multiplier x report step for the demand metrics (incl. a DD simulation per case), fixed-pattern synthetic tables for the resilience / pump formulas, and boundary-value enumeration of every lookup-table midpoint for the economic metrics",
    "every combination of the alphabets is evaluated with the real metric functions and compared with 5-10 line reference formulas written from the docstrings; lookup tables are probed at, just below and just above every midpoint between consecutive entries",
    "one open known finding (annual_network_cost treats the percentage efficiency as a fraction); values between alphabet points are not covered")
CLAIMED["C13"] = ("exploration", "deviation-bounded exhaustive enumeration of a rich model family (base model + every single deviation, named element x control pairs, thorough: all compatible pairs) and all example networks; four round-trip paths compared as JSON-normalised dictionaries",
    "every model of the family is converted with to_dict, re-created through from_dict / write_json+read_json / from_dict(append=empty) and a second trip, and the normalised dictionaries must be equal key by key (the first differing path is reported)",
    "attributes the catalogue does not set away from their defaults are only covered at their defaults")
CLAIMED["C12"] = ("exploration", "deviation-bounded exhaustive enumeration of the model family (every single deviation + named pairs; thorough all compatible pairs) crossed with all ten INP flow units and both INP versions; two write/read cycles per case compared attribute by attribute and as text",
    "every model x unit system x version of the bound is written with write_inpfile and read back; elements, connectivity, attributes, patterns, curves, demands, sources, options, tags, vertices, controls and rules are compared keyed by name within the precision of the written tokens; the second cycle must be a fixpoint (model and text)",
    "tolerance 1e-5 relative + field quanta (see assumptions in the evidence file); WNTR-only settings listed in the statement are not compared")
CLAIMED["C16"] = ("fault_enumeration", "exhaustive single-fault enumeration: every nonlinear solve k of 8 recorded fault-free runs x 6 fault kinds (iteration limit with and without line search, singular Jacobian early/late, line-search failure) x convergence_error x backup solver {none, succeeds, fails}, plus trial-limit faults; thorough adds all fault pairs and 30-min steps",
    "each fault is injected into the k-th call of the real NewtonSolver.solve so that the library's own error paths run; every execution is judged for termination, table shape (one increasing integer index on the report grid, one column per element, finite), RuntimeError vs warning + error_code, and equality of the reported prefix with the fault-free run",
    "faults are injected from outside (wrapped solver entry points), not by making the physics infeasible; termination only within a 60 s horizon per execution")
CLAIMED["C04"] = ("exploration", "exhaustive enumeration of all single time/clock-time controls and rules x start_clocktime x hydraulic step x rule step, and of all sets of two (thorough: all CLOSED x OPEN pairs, selected triples) on one target; oracle = event-timeline reference model cross-validated against EPANET 2.2 (ctypes, stepped with ENrunH/ENnextH) on every case",
    "every control set of the alphabets is simulated with 'ALL' reporting; every instant at which the reference timeline changes the target must be a solved step and the reported status at every solved step must equal the timeline; the timeline itself must agree with EPANET at every instant EPANET visits (else the run ends with a harness error, exit 2)",
    "combinations in which EPANET evaluates rules at extra instants (off-grid simple control + rule on an instant) and equal-priority conflicts are outside the statement and excluded; rule steps divide the hydraulic step")
CLAIMED["C10"] = ("exploration", "exhaustive enumeration of pause histories: 15 single-feature models x every subset of <=1 (thorough <=2/3) hourly pause instants x pickle yes/no, plus all feature pairs with single pauses; every part run on a new WNTRSimulator and compared with the uninterrupted run",
    "every history of the bound is executed on the real simulator: the continued part must start at the first step after the pause, indices must increase across parts and the concatenated heads, demands, leak demands, flows, statuses and settings must equal the uninterrupted run within 1e-6 (both solved with TOL 1e-10)",
    "pauses are on the hourly grid; networks larger than the 4-6 node family are not covered")
CLAIMED["C11"] = ("model_checking", "explicit enumeration of all operation histories (runW, runWs, runE, reset, deepcopy, JSON reload, one definition edit) up to length 3 (thorough 4) over 19 models; every history replayed on a fresh real model; definition invariant (to_dict) in every state and result oracles on fresh states",
    "after every operation of every history the JSON-normalised to_dict must equal the initial one; a WNTRSimulator run on a fresh state (initial / after reset / reloaded / copy of fresh) must equal the first fresh run (1e-9), every EpanetSimulator run must equal the first one",
    "history prefixes are not merged (run-time state of live objects cannot be canonicalised); models are 4-node networks")
CLAIMED["C19"] = ("exploration", "crossed enumeration of split/break calls (network variant x every pipe x 5 fractions x end x copy x mode) and of skeletonize calls (8 networks x all diameter assignments x thresholds x operation switches x max_cycles x exclusion lists x engine); structural oracles plus a before/after simulation for splits",
    "every call of the crossed alphabets runs on the real morph functions; lengths, fraction, connectivity, elevation, polyline coordinates, vertex distribution, inherited attributes, no check valve, untouched input (return_copy) and untouched other elements are checked for split/break, unchanged heads/flows by simulation for splits; survival of tanks/reservoirs/pumps/valves/controlled elements, conservation of total demand at every pattern instant and the partition property of the map for skeletonize",
    "networks of 5-6 nodes; the hydraulic clause is applied to pipes without minor loss and 0 < fraction < 1")
CLAIMED["C05"] = ("exploration", "exhaustive enumeration of single conditional controls and control pairs (thorough: all pairs and reduced triples) x 3 skeletons x 4 demand patterns x step sizes on a small-tank network; consistency invariant evaluated on every reported step with 'ALL' reporting",
    "every control set of the alphabets is simulated; at every reported step every control whose condition is robustly true must find its target in the commanded status / setting (documented exemptions only), and a tank-level threshold whose control changes something must be met within two seconds of tank flow",
    "thresholds are judged only when the reported value is more than 1e-4 away from them; non-converged runs are excluded and counted")
CLAIMED["C03"] = ("exploration", "deviation-bounded exhaustive enumeration of tiny networks in the common feature set (every single deviation, named pairs, control deviations; thorough: all pairs) x three differential legs: WNTRSimulator vs EpanetSimulator, EpanetSimulator in all ten INP flow units, and a hand-written reference INP text in all ten units run by EPANET through an own ctypes binding vs the same text read by read_inpfile and simulated",
    "every case is simulated by both engines and compared at every report step within stated tolerances; comparison stops at EPANET's own warnings and near-ties of state-dependent triggers are counted, not judged; unit independence is decided on EPANET runs of the INP files WNTR writes in each of the ten units, reader correctness on an independently written INP text with an own unit table",
    "6 open known findings (solver start-up with infeasible ACTIVE valves, power pumps); differences below 0.01 m / 2e-5 m3/s and near-tie steps are out of reach; EPANET 2.2 shared library is trusted")
NOT_YET = "check not built yet in this session (work in progress, see DESIGN.md section 4)"


def main():
    ids = [json.loads(l)["id"] for l in open(os.path.join(VERIF, "properties.jsonl"))]
    checks, na = [], []
    for i in ids:
        if i in CLAIMED:
            lvl, tech, text, extra = CLAIMED[i]
            checks.append({
                "property_id": i,
                "quick_cmd": "./check %s --tier quick" % i,
                "thorough_cmd": "./check %s --tier thorough" % i,
                "evidence_file": "/verif/evidence/%s.json" % i,
                "replay_cmd_template": "./check %s --replay {path}" % i,
                "engine": "bfs" if i in ("C14", "C15") else "enum",
                "level_claimed": {"category": lvl, "text": text, "design_ref": "DESIGN.md section 4, %s" % i},
                "level_note": (TB % i.lower()) + ("; " + extra if extra else ""),
                "technique": tech,
            })
        else:
            na.append({"property_id": i, "reason": NOT_YET})
    m = {
        "version": 1,
        "setup_cmd": "./check --setup",
        "hooks": {"guard": "WNTR_VERIF", "enable": "none needed: no source hooks exist; checks stage /repo/wntr into a scratch "
                  "directory, compile the two C++ extensions there and wrap solver entry points in the harness process",
                  "baseline_off_cmd": BASELINE, "source_commits": [], "add_only": True},
        "engines": [
            {"name": "enum", "path": "vf/pool.py", "serves_properties": [c["property_id"] for c in checks if c["engine"] == "enum"],
             "kind_free_text": "stateless bounded-exhaustive enumerator: every spec of a finite alphabet x deviation bound is executed on the real code in forked workers and judged by a reference model"},
            {"name": "bfs", "path": "vf/bfs.py", "serves_properties": [c["property_id"] for c in checks if c["engine"] == "bfs"],
             "kind_free_text": "explicit-state breadth-first search over operation histories; each transition calls the real API on a rebuilt real object; canonical-state deduplication; invariant + reference model in every state"},
        ],
        "checks": checks,
        "not_applicable": na,
        "notes": "All checks: ./check <id> --tier quick|thorough (exit 0 held / 1 violation / 2 harness error). Genuine defects: known_findings.json (open ones print KNOWN-FINDING and do not affect the exit code; fixed ones suppress nothing). Demonstration patches: mutants/ (+RESULTS.tsv), independent seeded changes: seeded/. Replays: ./check <id> --replay <file>; replays/test_replays.py. DESIGN.md section 8 is the as-built record.",
    }
    json.dump(m, open(os.path.join(VERIF, "MANIFEST.json"), "w"), indent=1)
    import jsonschema
    jsonschema.validate(m, json.load(open("/root/.vp/MANIFEST.schema.json")))
    print("MANIFEST.json: %d checks, %d not_applicable" % (len(checks), len(na)))


if __name__ == "__main__":
    main()
