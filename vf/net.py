"""Spec -> real WaterNetworkModel through the public API, simulation wrapper and small reference helpers.
A spec is a plain JSON dict (self-contained: replay files carry the whole network)."""
import copy, math, warnings

G = 9.81


def J(n, elev=0.0, demands=None, **kw):
    d = {"n": n, "t": "junc", "elev": elev, "demands": demands if demands is not None else [[0.01, None, None]]}
    d.update(kw)
    return d


def R(n, head=50.0, **kw):
    d = {"n": n, "t": "res", "head": head}
    d.update(kw)
    return d


def T(n, elev=30.0, init=3.0, mn=0.0, mx=6.0, diam=15.0, **kw):
    d = {"n": n, "t": "tank", "elev": elev, "init": init, "min": mn, "max": mx, "diam": diam}
    d.update(kw)
    return d


def P(n, a, b, L=400.0, D=0.3, C=100.0, K=0.0, status="OPEN", cv=False):
    return {"n": n, "t": "pipe", "a": a, "b": b, "L": L, "D": D, "C": C, "K": K, "status": status, "cv": cv}


def HP(n, a, b, curve, status="OPEN"):
    return {"n": n, "t": "hpump", "a": a, "b": b, "curve": curve, "status": status}


def PP(n, a, b, power, status="OPEN"):
    return {"n": n, "t": "ppump", "a": a, "b": b, "power": power, "status": status}


def V(n, a, b, vt, setting, D=0.3, K=0.0, status="ACTIVE"):
    return {"n": n, "t": vt, "a": a, "b": b, "D": D, "K": K, "setting": setting, "status": status}


def OPTS(**kw):
    o = {"dur": 4 * 3600, "hyd": 3600, "pat": 3600, "rep": 3600, "pstart": 0, "clock": 0, "rule": 360,
         "dm": "DD", "mult": 1.0}
    o.update(kw)
    return o


def spec(nodes, links, opts=None, patterns=None, controls=None, hw="default"):
    return {"nodes": nodes, "links": links, "opts": opts or OPTS(), "patterns": patterns or {},
            "controls": controls or [], "hw": hw}


def clone(s):
    return copy.deepcopy(s)


def node(s, name):
    for n in s["nodes"]:
        if n["n"] == name:
            return n
    raise KeyError(name)


def link(s, name):
    for l in s["links"]:
        if l["n"] == name:
            return l
    raise KeyError(name)


# ------------------------------------------------------------------------------------------------ build
def build(s):
    import wntr
    wn = wntr.network.WaterNetworkModel()
    o = s["opts"]

    def set_options():
        t = wn.options.time
        t.duration = o["dur"]; t.hydraulic_timestep = o["hyd"]; t.pattern_timestep = o["pat"]
        t.report_timestep = o["rep"]; t.pattern_start = o["pstart"]; t.start_clocktime = o["clock"]
        t.rule_timestep = o["rule"]
        if o.get("interp"):
            t.pattern_interpolation = True
        h = wn.options.hydraulic
        h.demand_model = o["dm"]; h.demand_multiplier = o["mult"]
        for k, a in (("pmin", "minimum_pressure"), ("preq", "required_pressure"), ("pexp", "pressure_exponent"),
                     ("trials", "trials")):
            if k in o:
                setattr(h, a, o[k])
    late = bool(s.get("late_options"))      # order of API calls: options assigned after patterns, elements and controls exist
    if not late:
        set_options()
    for name, mult in s["patterns"].items():
        if name in s.get("nowrap", ()):      # a pattern that does not repeat: zero after its last period
            wn.add_pattern(name, wntr.network.elements.Pattern(name, multipliers=list(mult), time_options=wn.options.time, wrap=False))
        else:
            wn.add_pattern(name, list(mult))
    ncurve = [0]

    def curve(kind, pts):
        ncurve[0] += 1
        nm = "crv%d" % ncurve[0]
        wn.add_curve(nm, kind, [tuple(p) for p in pts])
        return nm
    for i, n in enumerate(s["nodes"]):
        xy = tuple(n.get("xy", (float(i), float(i % 2))))
        if n["t"] == "junc":
            ds = n["demands"]
            if ds:
                wn.add_junction(n["n"], base_demand=ds[0][0], demand_pattern=ds[0][1], elevation=n["elev"],
                                coordinates=xy, demand_category=ds[0][2])
            else:
                wn.add_junction(n["n"], base_demand=0.0, elevation=n["elev"], coordinates=xy)
            j = wn.get_node(n["n"])
            for b, p, c in ds[1:]:
                j.add_demand(b, p, c)
            for k, a in (("pmin", "minimum_pressure"), ("preq", "required_pressure"), ("pexp", "pressure_exponent")):
                if k in n:
                    setattr(j, a, n[k])
        elif n["t"] == "res":
            wn.add_reservoir(n["n"], base_head=n["head"], head_pattern=n.get("head_pat"), coordinates=xy)
        elif n["t"] == "tank":
            vc = curve("VOLUME", n["vcurve"]) if n.get("vcurve") else None
            wn.add_tank(n["n"], elevation=n["elev"], init_level=n["init"], min_level=n["min"], max_level=n["max"],
                        diameter=n["diam"], min_vol=n.get("min_vol", 0.0), vol_curve=vc, coordinates=xy)
    for l in s["links"]:
        if l["t"] == "pipe":
            wn.add_pipe(l["n"], l["a"], l["b"], length=l["L"], diameter=l["D"], roughness=l["C"], minor_loss=l["K"],
                        initial_status=l["status"], check_valve=l["cv"])
        elif l["t"] == "hpump":
            wn.add_pump(l["n"], l["a"], l["b"], "HEAD", curve("HEAD", l["curve"]), initial_status=l["status"])
        elif l["t"] == "ppump":
            wn.add_pump(l["n"], l["a"], l["b"], "POWER", l["power"], initial_status=l["status"])
        else:
            wn.add_valve(l["n"], l["a"], l["b"], diameter=l["D"], valve_type=l["t"], minor_loss=l["K"],
                         initial_setting=l["setting"], initial_status=l["status"])
    for n in s["nodes"]:
        lk = n.get("leak")
        if lk:
            wn.get_node(n["n"]).add_leak(wn, lk["area"], lk.get("cd", 0.75), lk.get("start"), lk.get("end"))
    add_controls(wn, s["controls"])
    if late:
        set_options()
    if s.get("via_reset", True):
        # run-time state := definition (the documented way to put a model into its initial state)
        wn.reset_initial_values()
    return wn


def add_controls(wn, ctrls):
    import wntr
    from wntr.network import controls as C
    for i, c in enumerate(ctrls):
        target = wn.get_link(c["link"])
        attr = c.get("attr", "status")
        val = c["value"]
        if attr == "status":
            val = {"OPEN": wntr.network.LinkStatus.Open, "CLOSED": wntr.network.LinkStatus.Closed,
                   "ACTIVE": wntr.network.LinkStatus.Active}[val]
        act = C.ControlAction(target, attr, val)
        k = c["kind"]
        if k == "time":
            cond = C.SimTimeCondition(wn, c.get("rel", "="), c["t"], repeat=c.get("repeat", False))
        elif k == "clock":
            cond = C.TimeOfDayCondition(wn, c.get("rel", "="), c["t"], repeat=c.get("repeat", True))
        elif k == "level":
            # the same threshold spelled on the tank's level, on its pressure (= level) or on its head (= level + elevation)
            src = c.get("src", "level")
            cond = C.ValueCondition(wn.get_node(c["node"]), src, c["rel"], c["thr"] + (wn.get_node(c["node"]).elevation if src == "head" else 0.0))
        elif k == "pressure":
            cond = C.ValueCondition(wn.get_node(c["node"]), "pressure", c["rel"], c["thr"])
        else:
            raise ValueError(k)
        name = c.get("name", "c%d" % i)
        if c.get("rule"):
            els = None
            if "else_value" in c:
                ev = c["else_value"]
                if attr == "status":
                    ev = {"OPEN": wntr.network.LinkStatus.Open, "CLOSED": wntr.network.LinkStatus.Closed}[ev]
                els = [C.ControlAction(target, attr, ev)]
            wn.add_control(name, C.Rule(cond, [act], els, priority=c.get("prio", 3), **({"name": c["rule_name"]} if "rule_name" in c else {})))
        else:
            wn.add_control(name, C.Control(cond, act, priority=c.get("prio", 3)))


# ------------------------------------------------------------------------------------------------ simulate
class Sim(object):
    pass


def simulate(s, wn=None, **kw):
    """runs WNTRSimulator on the spec; returns Sim with numpy tables (times x names) and the warnings."""
    import wntr, numpy as np
    if wn is None:
        wn = build(s)
    sim = wntr.sim.WNTRSimulator(wn)
    with warnings.catch_warnings(record=True) as w:
        warnings.simplefilter("always")
        # keep the library's own filter (wntr/sim/solvers.py turns the singular-matrix warning into an exception)
        import scipy.sparse.linalg as spl
        warnings.filterwarnings("error", "Matrix is exactly singular", spl.MatrixRankWarning)
        res = sim.run_sim(HW_approx=s.get("hw", "default"), **kw)
    return wrap(res, wn, [str(x.message) for x in w])


def wrap(res, wn, warns=()):
    import numpy as np
    out = Sim()
    out.wn, out.res, out.warnings = wn, res, list(warns)
    out.error = res.error_code is not None
    out.times = [int(t) for t in res.node["head"].index]
    out.node = {k: {c: np.asarray(df[c].values, dtype=float) for c in df.columns} for k, df in res.node.items()}
    out.link = {k: {c: np.asarray(df[c].values, dtype=float) for c in df.columns} for k, df in res.link.items()}
    return out


# ------------------------------------------------------------------------------------------------ reference helpers
def pattern_value(mults, t, pstart, pstep, interp=False):
    """EPANET pattern semantics: period = floor((t + pattern_start)/pattern_step) mod len; with WNTR's
    pattern_interpolation option the value moves linearly from this period's multiplier to the next one's."""
    if not mults:
        return 1.0
    k = int((t + pstart) // pstep)
    m0 = mults[k % len(mults)]
    if not interp or len(mults) == 1:
        return m0
    m1 = mults[(k + 1) % len(mults)]
    return m0 + (m1 - m0) * ((t + pstart) - k * pstep) / float(pstep)


def expected_demand(s, jn, t):
    o = s["opts"]
    tot = 0.0
    for b, p, c in node(s, jn)["demands"]:
        if p is None and "1" in s["patterns"]:
            p = "1"         # a demand without a pattern follows the default pattern (options.hydraulic.pattern = '1') when that exists
        if p is not None and p in s.get("nowrap", ()):
            k = int((t + o["pstart"]) // o["pat"])
            m = s["patterns"][p][k] if 0 <= k < len(s["patterns"][p]) else 0.0      # (documented: no repetition, no interpolation)
            if len(s["patterns"][p]) == 1:
                m = s["patterns"][p][0]
        else:
            m = 1.0 if p is None else pattern_value(s["patterns"][p], t, o["pstart"], o["pat"], o.get("interp", False))
        tot += b * m
    return tot * o["mult"]


def incidence(s):
    """node -> list of (link name, +1 if link ends at node (inflow for positive q) else -1)."""
    inc = {n["n"]: [] for n in s["nodes"]}
    for l in s["links"]:
        inc[l["b"]].append((l["n"], +1))
        inc[l["a"]].append((l["n"], -1))
    return inc


def connected_to_source(s, closed):
    """set of node names joined to a tank/reservoir by links not in `closed`."""
    adj = {n["n"]: [] for n in s["nodes"]}
    for l in s["links"]:
        if l["n"] not in closed:
            adj[l["a"]].append(l["b"]); adj[l["b"]].append(l["a"])
    seen = set(n["n"] for n in s["nodes"] if n["t"] in ("res", "tank"))
    stack = list(seen)
    while stack:
        u = stack.pop()
        for v in adj[u]:
            if v not in seen:
                seen.add(v); stack.append(v)
    return seen


def hw_loss(q, L, D, C, K):
    """documented Hazen-Williams (SI) + minor loss; odd in q."""
    a = abs(q)
    return math.copysign(10.667 * C ** -1.852 * D ** -4.871 * L * a ** 1.852 + 8.0 * K / (G * math.pi ** 2 * D ** 4) * a * a, q)
