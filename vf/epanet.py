"""Minimal ctypes binding to the EPANET 2.2 shared library shipped in the repository (trusted reference engine) and a
hand-written INP emitter for the tiny specs of vf/net.py.  Independent of wntr/epanet/toolkit.py and of the INP writer."""
import ctypes, os

EN_ELEVATION, EN_BASEDEMAND, EN_DEMAND, EN_HEAD, EN_PRESSURE = 0, 1, 9, 10, 11
EN_FLOW, EN_STATUS, EN_SETTING = 8, 11, 12
EN_NODECOUNT, EN_LINKCOUNT = 0, 2
EN_TANKLEVEL = 8

_lib = None


def lib():
    global _lib
    if _lib is None:
        import wntr
        p = os.path.join(os.path.dirname(wntr.__file__), "epanet", "libepanet", "linux-x64", "libepanet22.so")
        _lib = ctypes.CDLL(p)
    return _lib


class EpanetError(Exception):
    pass


def run_hydraulics(inp_text, links=(), nodes=(), workdir="."):
    """steps EPANET through the hydraulic solution (ENrunH / ENnextH): returns list of
    (time, warning_code, {link: (status, flow, setting)}, {node: (head, pressure, demand)}) at every hydraulic instant
    EPANET itself visits (including the intermediate ones caused by controls, rules and tanks)."""
    L = lib()
    base = os.path.join(workdir, "en_%d" % os.getpid())
    with open(base + ".inp", "w") as f:
        f.write(inp_text)
    err = L.ENopen((base + ".inp").encode(), (base + ".rpt").encode(), b"")
    if err > 100:
        L.ENclose()
        raise EpanetError("ENopen error %d\n%s" % (err, open(base + ".rpt").read()[-1500:] if os.path.exists(base + ".rpt") else ""))
    out = []
    try:
        if L.ENopenH() > 100:
            raise EpanetError("ENopenH")
        L.ENinitH(0)
        lidx, nidx = {}, {}
        for l in links:
            i = ctypes.c_int()
            L.ENgetlinkindex(l.encode(), ctypes.byref(i))
            lidx[l] = i.value
        for n in nodes:
            i = ctypes.c_int()
            L.ENgetnodeindex(n.encode(), ctypes.byref(i))
            nidx[n] = i.value
        t = ctypes.c_long()
        step = ctypes.c_long()
        v = ctypes.c_float()
        while True:
            code = L.ENrunH(ctypes.byref(t))
            if code > 100:
                raise EpanetError("ENrunH error %d at %d" % (code, t.value))
            lv, nv = {}, {}
            for l, i in lidx.items():
                vals = []
                for c in (EN_STATUS, EN_FLOW, EN_SETTING):
                    L.ENgetlinkvalue(i, c, ctypes.byref(v))
                    vals.append(v.value)
                lv[l] = tuple(vals)
            for n, i in nidx.items():
                vals = []
                for c in (EN_HEAD, EN_PRESSURE, EN_DEMAND):
                    L.ENgetnodevalue(i, c, ctypes.byref(v))
                    vals.append(v.value)
                nv[n] = tuple(vals)
            out.append((int(t.value), code, lv, nv))
            L.ENnextH(ctypes.byref(step))
            if step.value <= 0:
                break
        L.ENcloseH()
    finally:
        L.ENclose()
        for ext in (".inp", ".rpt"):
            try:
                os.unlink(base + ext)
            except OSError:
                pass
    return out


def hms(sec):
    sec = int(sec)
    return "%d:%02d:%02d" % (sec // 3600, (sec % 3600) // 60, sec % 60)


def clock(sec):
    """EPANET clock string: H:MM:SS AM/PM"""
    sec = int(sec) % 86400
    h, m, s = sec // 3600, (sec % 3600) // 60, sec % 60
    ap = "AM" if h < 12 else "PM"
    h12 = h % 12
    if h12 == 0:
        h12 = 12
    return "%d:%02d:%02d %s" % (h12, m, s, ap)


def inp_lps(s, controls_text="", rules_text=""):
    """INP text (units LPS: m, mm, L/s) of a vf.net spec restricted to reservoirs, tanks, junctions, H-W pipes, pumps, valves."""
    o = s["opts"]
    J, Rs, Ts, Pp, Pu, Va, Cu, Dm = [], [], [], [], [], [], [], []
    ncurve = 0
    for n in s["nodes"]:
        if n["t"] == "junc":
            ds = n["demands"] or [[0.0, None, None]]
            J.append(" %s %.10g %.10g %s" % (n["n"], n["elev"], ds[0][0] * 1000.0, ds[0][1] or ""))
            if len(ds) > 1:
                for b, p, c in ds:
                    Dm.append(" %s %.10g %s" % (n["n"], b * 1000.0, p or ""))
        elif n["t"] == "res":
            Rs.append(" %s %.10g %s" % (n["n"], n["head"], n.get("head_pat") or ""))
        else:
            Ts.append(" %s %.10g %.10g %.10g %.10g %.10g 0" % (n["n"], n["elev"], n["init"], n["min"], n["max"], n["diam"]))
    status = []
    for l in s["links"]:
        if l["t"] == "pipe":
            st = "CV" if l["cv"] else ("Closed" if l["status"] == "CLOSED" else "Open")
            Pp.append(" %s %s %s %.10g %.10g %.10g %.10g %s" % (l["n"], l["a"], l["b"], l["L"], l["D"] * 1000.0, l["C"], l["K"], st))
        elif l["t"] == "hpump":
            ncurve += 1
            cn = "hc%d" % ncurve
            for q, h in l["curve"]:
                Cu.append(" %s %.10g %.10g" % (cn, q * 1000.0, h))
            Pu.append(" %s %s %s HEAD %s" % (l["n"], l["a"], l["b"], cn))
            if l["status"] == "CLOSED":
                status.append(" %s Closed" % l["n"])
        elif l["t"] == "ppump":
            Pu.append(" %s %s %s POWER %.10g" % (l["n"], l["a"], l["b"], l["power"] / 1000.0))
            if l["status"] == "CLOSED":
                status.append(" %s Closed" % l["n"])
        else:
            setting = l["setting"] * (1000.0 if l["t"] == "FCV" else 1.0)
            Va.append(" %s %s %s %.10g %s %.10g %.10g" % (l["n"], l["a"], l["b"], l["D"] * 1000.0, l["t"], setting, l["K"]))
            if l["status"] in ("CLOSED", "OPEN"):
                status.append(" %s %s" % (l["n"], l["status"].capitalize()))
    pats = []
    for name, mult in s["patterns"].items():
        pats.append(" %s %s" % (name, " ".join("%.10g" % m for m in mult)))
    rep = o["rep"] if o["rep"] != "ALL" else o["hyd"]
    txt = ["[TITLE]", "verif", "[JUNCTIONS]"] + J + ["[RESERVOIRS]"] + Rs + ["[TANKS]"] + Ts + ["[PIPES]"] + Pp + ["[PUMPS]"] + Pu + \
          ["[VALVES]"] + Va + ["[DEMANDS]"] + Dm + ["[STATUS]"] + status + ["[PATTERNS]"] + pats + ["[CURVES]"] + Cu + \
          ["[CONTROLS]", controls_text, "[RULES]", rules_text, "[TIMES]",
           " Duration %s" % hms(o["dur"]), " Hydraulic Timestep %s" % hms(o["hyd"]), " Quality Timestep 0:05", " Pattern Timestep %s" % hms(o["pat"]),
           " Pattern Start %s" % hms(o["pstart"]), " Report Timestep %s" % hms(rep), " Report Start 0:00", " Start ClockTime %s" % clock(o["clock"]),
           " Rule Timestep %s" % hms(o["rule"]), " Statistic NONE", "[OPTIONS]", " Units LPS", " Headloss H-W", " Specific Gravity 1", " Viscosity 1",
           " Trials 100", " Accuracy 0.00001", " Unbalanced Continue 10", " Pattern 1", " Demand Multiplier %.10g" % o["mult"], " Emitter Exponent 0.5",
           " Quality None mg/L", "[REPORT]", " Status No", " Summary No", "[END]"]
    return "\n".join(txt) + "\n"


# ------------------------------------------------------------------------------------------------ unit systems (own table)
GAL, FT, IN, PSI_M, HP_W = 3.785411784e-3, 0.3048, 0.0254, 0.3048 / 0.4333, 745.699872
FLOW = {"CFS": FT ** 3, "GPM": GAL / 60.0, "MGD": 1e6 * GAL / 86400.0, "IMGD": 1e6 * 4.54609e-3 / 86400.0, "AFD": 43560.0 * FT ** 3 / 86400.0,
        "LPS": 1e-3, "LPM": 1e-3 / 60.0, "MLD": 1e3 / 86400.0, "CMH": 1.0 / 3600.0, "CMD": 1.0 / 86400.0}
US = ("CFS", "GPM", "MGD", "IMGD", "AFD")


def factors(units):
    """SI value of one file unit for: flow, length/elevation/head, pipe diameter, pressure, power"""
    us = units in US
    return {"flow": FLOW[units], "len": FT if us else 1.0, "diam": IN if us else 1e-3, "pres": PSI_M if us else 1.0,
            "power": HP_W if us else 1000.0}


def inp_units(s, units, controls_text="", rules_text="", status_settings=False):
    """INP text of a vf.net spec in any of the ten EPANET flow units (hand-written emitter, own unit table)."""
    f = factors(units)
    o = s["opts"]
    g = lambda x: "%.12g" % x
    J, Rs, Ts, Pp, Pu, Va, Cu, Dm = [], [], [], [], [], [], [], []
    ncurve = 0
    for n in s["nodes"]:
        if n["t"] == "junc":
            ds = n["demands"] or [[0.0, None, None]]
            J.append(" %s %s %s %s" % (n["n"], g(n["elev"] / f["len"]), g(ds[0][0] / f["flow"]), ds[0][1] or ""))
            if len(ds) > 1:
                for b, p, c in ds:
                    Dm.append(" %s %s %s" % (n["n"], g(b / f["flow"]), p or ""))
        elif n["t"] == "res":
            Rs.append(" %s %s %s" % (n["n"], g(n["head"] / f["len"]), n.get("head_pat") or ""))
        else:
            vc = ""
            if n.get("vcurve"):
                ncurve += 1
                vc = "vc%d" % ncurve
                for lv, vol in n["vcurve"]:
                    Cu.append(" %s %s %s" % (vc, g(lv / f["len"]), g(vol / f["len"] ** 3)))
            Ts.append(" %s %s %s %s %s %s 0 %s" % (n["n"], g(n["elev"] / f["len"]), g(n["init"] / f["len"]), g(n["min"] / f["len"]),
                                                   g(n["max"] / f["len"]), g(n["diam"] / f["len"]), vc))
    status = []
    for l in s["links"]:
        if l["t"] == "pipe":
            st = "CV" if l["cv"] else ("Closed" if l["status"] == "CLOSED" else "Open")
            Pp.append(" %s %s %s %s %s %s %s %s" % (l["n"], l["a"], l["b"], g(l["L"] / f["len"]), g(l["D"] / f["diam"]), g(l["C"]), g(l["K"]), st))
        elif l["t"] == "hpump":
            ncurve += 1
            cn = "hc%d" % ncurve
            for q, h in l["curve"]:
                Cu.append(" %s %s %s" % (cn, g(q / f["flow"]), g(h / f["len"])))
            Pu.append(" %s %s %s HEAD %s" % (l["n"], l["a"], l["b"], cn))
            if l["status"] == "CLOSED":
                status.append(" %s Closed" % l["n"])
        elif l["t"] == "ppump":
            Pu.append(" %s %s %s POWER %s" % (l["n"], l["a"], l["b"], g(l["power"] / f["power"])))
            if l["status"] == "CLOSED":
                status.append(" %s Closed" % l["n"])
        else:
            setting = l["setting"] / (f["flow"] if l["t"] == "FCV" else (f["pres"] if l["t"] in ("PRV", "PSV", "PBV") else 1.0))
            if status_settings and l["status"] == "ACTIVE":
                # the setting in force is given in [STATUS] (a numeric entry there overrides the [VALVES] column)
                Va.append(" %s %s %s %s %s %s %s" % (l["n"], l["a"], l["b"], g(l["D"] / f["diam"]), l["t"], g(setting * 0.5 + 1.0), g(l["K"])))
                status.append(" %s %s" % (l["n"], g(setting)))
            else:
                Va.append(" %s %s %s %s %s %s %s" % (l["n"], l["a"], l["b"], g(l["D"] / f["diam"]), l["t"], g(setting), g(l["K"])))
            if l["status"] in ("CLOSED", "OPEN"):
                status.append(" %s %s" % (l["n"], l["status"].capitalize()))
    pats = [" %s %s" % (name, " ".join(g(m) for m in mult)) for name, mult in s["patterns"].items()]
    ctr, rul = [], []
    for i, c in enumerate(s["controls"]):
        ltype = "LINK"
        if c.get("attr", "status") == "status":
            val = c["value"]
        else:       # a setting, in the units of the target valve type
            vt = [l["t"] for l in s["links"] if l["n"] == c["link"]][0]
            val = g(c["value"] / (f["flow"] if vt == "FCV" else (f["pres"] if vt in ("PRV", "PSV", "PBV") else 1.0)))
        if c.get("rule"):
            if c["kind"] == "level":
                cond = "TANK %s LEVEL %s %s" % (c["node"], {">": "ABOVE", "<": "BELOW", ">=": "ABOVE", "<=": "BELOW"}[c["rel"]], g(c["thr"] / f["len"]))
            elif c["kind"] == "pressure":
                cond = "JUNCTION %s PRESSURE %s %s" % (c["node"], {">": "ABOVE", "<": "BELOW", ">=": "ABOVE", "<=": "BELOW"}[c["rel"]], g(c["thr"] / f["pres"]))
            elif c["kind"] == "time":
                cond = "SYSTEM TIME %s %s" % (c["rel"], hms(c["t"]))
            else:
                cond = "SYSTEM CLOCKTIME %s %s" % (c["rel"], clock(c["t"]))
            r = "RULE r%d\nIF %s\nTHEN LINK %s STATUS IS %s" % (i, cond, c["link"], c["value"])
            if "else_value" in c:
                r += "\nELSE LINK %s STATUS IS %s" % (c["link"], c["else_value"])
            rul.append(r + "\nPRIORITY %d\n" % c.get("prio", 3))
        elif c["kind"] == "time":
            ctr.append(" LINK %s %s AT TIME %s" % (c["link"], val, hms(c["t"])))
        elif c["kind"] == "clock":
            ctr.append(" LINK %s %s AT CLOCKTIME %s" % (c["link"], val, clock(c["t"])))
        elif c["kind"] == "level":
            ctr.append(" LINK %s %s IF NODE %s %s %s" % (c["link"], val, c["node"], {">": "ABOVE", "<": "BELOW", ">=": "ABOVE", "<=": "BELOW"}[c["rel"]], g(c["thr"] / f["len"])))
        else:
            ctr.append(" LINK %s %s IF NODE %s %s %s" % (c["link"], val, c["node"], {">": "ABOVE", "<": "BELOW", ">=": "ABOVE", "<=": "BELOW"}[c["rel"]], g(c["thr"] / f["pres"])))
    rep = o["rep"] if o["rep"] != "ALL" else o["hyd"]
    opt = [" Units %s" % units, " Headloss H-W", " Specific Gravity 1", " Viscosity 1", " Trials 200", " Accuracy 0.000001", " Unbalanced Continue 10",
           " Pattern 1", " Demand Multiplier %s" % g(o["mult"]), " Emitter Exponent 0.5", " Quality None mg/L"]
    if o["dm"] == "PDD":
        opt += [" Demand Model PDA", " Minimum Pressure %s" % g(o["pmin"] / f["pres"]), " Required Pressure %s" % g(o["preq"] / f["pres"]),
                " Pressure Exponent %s" % g(o["pexp"])]
    txt = ["[TITLE]", "verif", "[JUNCTIONS]"] + J + ["[RESERVOIRS]"] + Rs + ["[TANKS]"] + Ts + ["[PIPES]"] + Pp + ["[PUMPS]"] + Pu + \
          ["[VALVES]"] + Va + ["[DEMANDS]"] + Dm + ["[STATUS]"] + status + ["[PATTERNS]"] + pats + ["[CURVES]"] + Cu + \
          ["[CONTROLS]"] + ctr + ["[RULES]"] + rul + ["[TIMES]",
           " Duration %s" % hms(o["dur"]), " Hydraulic Timestep %s" % hms(o["hyd"]), " Quality Timestep 0:05", " Pattern Timestep %s" % hms(o["pat"]),
           " Pattern Start %s" % hms(o["pstart"]), " Report Timestep %s" % hms(rep), " Report Start 0:00", " Start ClockTime %s" % clock(o["clock"]),
           " Rule Timestep %s" % hms(o["rule"]), " Statistic NONE", "[OPTIONS]"] + opt + ["[REPORT]", " Status No", " Summary No", "[END]"]
    return "\n".join(txt) + "\n"
