"""Verdict protocol, replay files, known findings and the evidence writer."""
import hashlib, json, os, sys, time

VERIF = os.path.dirname(os.path.dirname(os.path.abspath(__file__)))
OUT = os.environ.get("VERIF_OUT", VERIF)   # mutant runs write evidence/replays elsewhere


def canon(o):
    return json.dumps(o, sort_keys=True, default=str)


def load_findings():
    p = os.path.join(VERIF, "known_findings.json")
    if not os.path.exists(p):
        return []
    return json.load(open(p))["findings"]


class Run:
    def __init__(self, pid, tier, seed, level):
        self.pid, self.tier, self.seed, self.level = pid, tier, seed, level
        self.t0 = time.time()
        self.evaluations = 0
        self.nontrivial = set()
        self.outcomes = {}
        self.counts = {}
        self.samples = []
        self.viol = {}       # key -> first (what, spec, detail), count
        self.rule = ""
        self.exhaustive = True
        self.caps = []
        self.extra = {}
        self.assumptions = []
        self.determinism_reruns = 0
        self.nontrivial_extra = 0   # non-trivial cases counted by a check in bulk (measured, distinct by construction)

    # ---- bookkeeping
    def count(self, k, n=1):
        self.counts[k] = self.counts.get(k, 0) + n

    def add_result(self, spec, r):
        """r: dict(viol=[..], nontrivial=bool, outcome=str, counts={...})"""
        self.evaluations += 1
        if r.get("nontrivial"):
            self.nontrivial.add(hashlib.sha1(canon(spec).encode()).hexdigest())
        o = r.get("outcome")
        if o is not None:
            self.outcomes[o] = self.outcomes.get(o, 0) + 1
        for k, n in (r.get("counts") or {}).items():
            self.count(k, n)
        for v in r.get("viol") or []:
            self.violation(v["key"], v["what"], spec, v.get("detail"))

    def violation(self, key, what, spec, detail=None):
        if key in self.viol:
            self.viol[key]["n"] += 1
            # keep the smallest spec as the representative
            if len(canon(spec)) < len(canon(self.viol[key]["spec"])):
                self.viol[key].update(what=what, spec=spec, detail=detail)
        else:
            self.viol[key] = {"what": what, "spec": spec, "detail": detail, "n": 1}

    def sample(self, specs, k=6):
        n = len(specs)
        if n == 0:
            return
        idx = sorted(set([0, n - 1] + [i * n // k for i in range(k)]))
        self.samples = [specs[i] for i in idx]

    # ---- verdict
    def finish(self):
        known = [f for f in load_findings() if f["property"] == self.pid and f.get("status") == "open"]
        kkeys = {f["key"]: f for f in known}
        new = []
        for key in sorted(self.viol):
            v = self.viol[key]
            h = hashlib.sha1((self.pid + key).encode()).hexdigest()[:10]
            path = os.path.join(OUT, "replays", "%s-%s.json" % (self.pid, h))
            os.makedirs(os.path.dirname(path), exist_ok=True)
            with open(path, "w") as f:
                json.dump({"property": self.pid, "key": key, "what": v["what"], "spec": v["spec"],
                           "detail": v["detail"], "cases_with_this_key": v["n"], "tier": self.tier}, f, indent=1, default=str)
            if key in kkeys:
                print("KNOWN-FINDING: property=%s %s [key=%s, %d case(s), replay=%s]" % (self.pid, kkeys[key]["what"], key, v["n"], path))
                continue
            print("VIOLATION property=%s replay=%s" % (self.pid, path))
            print("  key=%s n=%d :: %s" % (key, v["n"], v["what"]))
            new.append(key)
        cov = {
            "evaluations": self.evaluations,
            "distinct_nontrivial": len(self.nontrivial) + self.nontrivial_extra,
            "rule": self.rule,
            "samples": self.samples[:8],
            "exhaustive": bool(self.exhaustive and not self.caps),
            "caps_hit": self.caps,
            "distinct_outcomes": len(self.outcomes),
            "outcome_histogram": dict(sorted(self.outcomes.items(), key=lambda kv: -kv[1])[:25]),
            "oracle_counts": dict(sorted(self.counts.items())),
            "determinism_reruns": self.determinism_reruns,
            "violation_keys": sorted(self.viol),
            "known_finding_keys": sorted(k for k in self.viol if k in kkeys),
        }
        cov.update(self.extra)
        ev = {"property_id": self.pid, "tier": self.tier, "seed": self.seed, "level": self.level,
              "coverage": cov, "assumptions": self.assumptions, "wall_s": round(time.time() - self.t0, 2),
              "violations": len(new)}
        valid = validate_and_write(self.pid, ev)
        print("%s tier=%s evaluations=%d nontrivial=%d outcomes=%d violations=%d known=%d wall=%.1fs" % (
            self.pid, self.tier, self.evaluations, len(self.nontrivial) + self.nontrivial_extra, len(self.outcomes), len(new),
            len(cov["known_finding_keys"]), ev["wall_s"]))
        if self.extra.get("harness_error") and not new:
            sys.stderr.write("HARNESS-ERROR: %s\n" % self.extra["harness_error"])
            return 2
        return 1 if new else (0 if valid else 2)


def validate_and_write(pid, ev):
    path = os.path.join(OUT, "evidence", "%s.json" % pid)
    os.makedirs(os.path.dirname(path), exist_ok=True)
    txt = json.dumps(ev, indent=1, default=str)
    schema = "/root/.vp/EVIDENCE.schema.json"
    try:
        import jsonschema
        if os.path.exists(schema):
            jsonschema.validate(json.loads(txt), json.load(open(schema)))
    except ImportError:
        _mini_validate(json.loads(txt))
    except Exception as e:  # jsonschema.ValidationError
        sys.stderr.write("HARNESS-ERROR: evidence does not validate: %s\n" % str(e)[:500])
        with open(path, "w") as f:
            f.write(txt)
        return False
    with open(path, "w") as f:
        f.write(txt)
    return True


def _mini_validate(ev):
    c = ev["coverage"]
    ok = isinstance(c.get("evaluations"), int) and c["evaluations"] >= 1 and c.get("distinct_nontrivial", 0) >= 2 \
        and isinstance(c.get("samples"), list) and len(c["samples"]) >= 1 and isinstance(c.get("rule"), str)
    if ev["level"] == "model_checking" and "states" in c:
        ok = ok and c["states"] >= 1 and c["transitions"] >= 1
    if not ok:
        raise ValueError("evidence does not satisfy the level's minimum keys")
