"""Process pool for the stateless enumerator: long-lived forked workers, one fresh model per case,
per-case wall-clock horizon, exceptions turned into observations."""
import multiprocessing as mp, os, random, signal, traceback, warnings

NPROC = int(os.environ.get("VERIF_PROCS", "16"))
HORIZON_S = 60.0
_fn = None


class CaseTimeout(Exception):
    pass


def _alarm(signum, frame):
    raise CaseTimeout("case exceeded %.0f s horizon" % HORIZON_S)


def _init(quiet=False):
    from . import stage
    stage.workdir()
    if quiet:  # SuperLU prints 'dgstrf info' on singular matrices from C; workers report only through the pipe
        fd = os.open(os.devnull, os.O_WRONLY)
        os.dup2(fd, 1)
    signal.signal(signal.SIGALRM, _alarm)
    warnings.simplefilter("ignore")


def _call(arg):
    i, spec = arg
    signal.setitimer(signal.ITIMER_REAL, HORIZON_S)
    try:
        r = _fn(spec)
    except CaseTimeout as e:
        r = {"viol": [{"key": "harness:timeout", "what": "execution did not finish within %.0f s" % HORIZON_S,
                       "detail": str(e)}]}
    except BaseException as e:  # noqa  -- an uncaught exception in a worker is an observation
        r = {"viol": [{"key": "crash:%s" % type(e).__name__,
                       "what": "uncaught %s: %s" % (type(e).__name__, str(e)[:200]),
                       "detail": traceback.format_exc()[-2500:]}]}
    finally:
        signal.setitimer(signal.ITIMER_REAL, 0)
    return i, r


def run_cases(fn, specs, seed=0, procs=None, chunksize=None):
    """runs fn(spec) for every spec; returns results in spec order. Order of dispatch is permuted by seed."""
    global _fn
    _fn = fn
    order = list(range(len(specs)))
    random.Random(seed).shuffle(order)
    out = [None] * len(specs)
    procs = procs or NPROC
    if procs <= 1 or len(specs) <= 2:
        _init()
        # C libraries (SuperLU's "dgstrf info") write to fd 1 directly: keep the verdict stream clean
        import sys
        sys.stdout.flush()
        saved = os.dup(1)
        fd = os.open(os.devnull, os.O_WRONLY)
        os.dup2(fd, 1)
        try:
            for i in order:
                out[i] = _call((i, specs[i]))[1]
        finally:
            sys.stdout.flush()
            os.dup2(saved, 1)
            os.close(saved)
            os.close(fd)
        return out
    if chunksize is None:
        chunksize = max(1, min(64, len(specs) // (procs * 8)))
    ctx = mp.get_context("fork")
    with ctx.Pool(procs, initializer=_init, initargs=(True,)) as pool:
        for i, r in pool.imap_unordered(_call, [(i, specs[i]) for i in order], chunksize=chunksize):
            out[i] = r
    return out
