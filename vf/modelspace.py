"""Model family for the I/O round-trip properties (C12, C13): a 5-node base model plus a finite catalogue of deviations,
each a short sequence of public-API calls.  A case = base + every subset of <= d pairwise-compatible deviations."""
import itertools


def base_model():
    import wntr
    wn = wntr.network.WaterNetworkModel()
    wn.add_pattern("pat1", [1.0, 1.2, 0.8])
    wn.add_pattern("pat2", [0.5, 1.5])
    wn.add_reservoir("R1", base_head=50.0, coordinates=(0.0, 0.0))
    wn.add_junction("J1", base_demand=0.01, demand_pattern="pat1", elevation=5.0, coordinates=(10.0, 0.0), demand_category="dom")
    wn.add_junction("J2", base_demand=0.02, elevation=3.0, coordinates=(20.0, 5.0))
    wn.add_junction("J3", base_demand=0.0, elevation=1.0, coordinates=(30.0, 0.0))
    wn.add_tank("T1", elevation=30.0, init_level=3.0, min_level=1.0, max_level=6.0, diameter=10.0, coordinates=(40.0, 0.0))
    wn.add_pipe("p1", "R1", "J1", length=100.0, diameter=0.3, roughness=100.0)
    wn.add_pipe("p2", "J1", "J2", length=250.0, diameter=0.25, roughness=120.0)
    wn.add_pipe("p3", "J2", "J3", length=300.0, diameter=0.2, roughness=90.0)
    wn.add_pipe("p4", "J3", "T1", length=150.0, diameter=0.3, roughness=100.0)
    t = wn.options.time
    t.duration = 6 * 3600
    t.hydraulic_timestep = 3600; t.pattern_timestep = 3600; t.report_timestep = 3600
    return wn


# name -> (group, function).  Deviations of one group exclude each other.
def catalogue():
    import wntr
    from wntr.network import controls as C
    LS = wntr.network.LinkStatus
    D = {}

    def dev(name, group=None):
        def deco(f):
            D[name] = (group or name, f)
            return f
        return deco

    # ---------------- junctions
    @dev("j_emitter")
    def _(wn): wn.get_node("J2").emitter_coefficient = 0.002
    @dev("j_quality")
    def _(wn): wn.get_node("J1").initial_quality = 0.5
    @dev("j_tag")
    def _(wn): wn.get_node("J1").tag = "zoneA"
    @dev("j_pdd_params")
    def _(wn):
        j = wn.get_node("J2"); j.minimum_pressure = 2.0; j.required_pressure = 18.0; j.pressure_exponent = 0.6
    @dev("j_second_demand", "j2dem")
    def _(wn): wn.get_node("J2").add_demand(0.004, "pat2", "ind")
    @dev("j_three_demands", "j2dem")
    def _(wn):
        j = wn.get_node("J2"); j.add_demand(0.004, "pat2", "ind"); j.add_demand(0.001, None, "dom")
    @dev("j_no_demand", "j3dem")
    def _(wn): del wn.get_node("J3").demand_timeseries_list[:]
    @dev("j_negative_demand", "j3dem")
    def _(wn): wn.get_node("J3").demand_timeseries_list[0].base_value = -0.003
    @dev("j_negative_elev")
    def _(wn): wn.get_node("J3").elevation = -12.5
    @dev("long_names")
    def _(wn):
        wn.add_junction("J" + "x" * 30, base_demand=0.003, elevation=4.0, coordinates=(30.0, 20.0))      # 31 characters
        wn.add_pipe("P" + "y" * 30, "J3", "J" + "x" * 30, length=80.0, diameter=0.15, roughness=95.0)
    @dev("shared_names")
    def _(wn):
        # node and link identifiers are separate name spaces: a junction called like a pipe, a pipe called like a junction
        wn.add_junction("p2", base_demand=0.002, elevation=2.0, coordinates=(25.0, 15.0))
        wn.add_pipe("J2", "J2", "p2", length=60.0, diameter=0.1, roughness=110.0)
        wn.add_pattern("p1", [1.0, 0.9]); wn.add_curve("J1", "HEAD", [(0.0, 30.0), (0.02, 20.0), (0.04, 5.0)])
    @dev("pat_long")
    def _(wn):
        wn.add_pattern("p30", [0.4 + 0.07 * ((i * 7) % 13) for i in range(30)])
        wn.get_node("J2").demand_timeseries_list[0].pattern_name = "p30"
    @dev("p_many_vertices")
    def _(wn): wn.get_link("p4").vertices = [(31.0 + i, (-1.0) ** i * 2.5) for i in range(6)]
    # ---------------- tank
    @dev("t_overflow")
    def _(wn): wn.get_node("T1").overflow = True
    @dev("t_mixing", "tmix")
    def _(wn):
        t = wn.get_node("T1"); t.mixing_model = "2COMP"; t.mixing_fraction = 0.4
    @dev("t_mixing_fifo", "tmix")
    def _(wn): wn.get_node("T1").mixing_model = "FIFO"
    @dev("t_mixing_zero", "tmix")
    def _(wn):
        t = wn.get_node("T1"); t.mixing_model = "2COMP"; t.mixing_fraction = 0.0
    @dev("t_leak")
    def _(wn): wn.get_node("T1").add_leak(wn, area=2.0e-4, discharge_coeff=0.6, start_time=3600, end_time=7200)
    @dev("j_leak")
    def _(wn): wn.get_node("J2").add_leak(wn, area=1.0e-4, discharge_coeff=0.75, start_time=0, end_time=None)
    @dev("t_bulk")
    def _(wn): wn.get_node("T1").bulk_coeff = -1.0e-6
    @dev("t_quality")
    def _(wn): wn.get_node("T1").initial_quality = 0.8
    @dev("t_volcurve")
    def _(wn):
        wn.add_curve("vc1", "VOLUME", [(0.0, 0.0), (2.0, 150.0), (4.0, 380.0), (7.0, 600.0)])
        wn.get_node("T1").vol_curve_name = "vc1"
    @dev("t_minvol")
    def _(wn): wn.get_node("T1").min_vol = 40.0
    @dev("t_mixfrac_only")       # API: a compartment fraction without a mixing model (an INP [MIXING] line always names a model)
    def _(wn): wn.get_node("T1").mixing_fraction = 0.25
    @dev("t_tag")
    def _(wn): wn.get_node("T1").tag = "tower"
    # ---------------- reservoir
    @dev("r_headpat")
    def _(wn): wn.get_node("R1").head_pattern_name = "pat2"
    @dev("r_quality")
    def _(wn): wn.get_node("R1").initial_quality = 1.5
    @dev("r_tag")
    def _(wn): wn.get_node("R1").tag = "src"
    # ---------------- pipes
    @dev("p_cv", "p2kind")
    def _(wn): wn.get_link("p2").check_valve = True
    @dev("p_cv_closed", "p2kind")          # a check-valve pipe that starts closed (the API allows both at once)
    def _(wn):
        wn.get_link("p2").check_valve = True; wn.get_link("p2").initial_status = LS.Closed
    @dev("p_closed", "p2kind")
    def _(wn): wn.get_link("p2").initial_status = LS.Closed
    @dev("p_source_source")      # a pipe / a TCV that joins the reservoir and the tank directly
    def _(wn): wn.add_pipe("p9", "R1", "T1", length=800.0, diameter=0.15, roughness=110.0)
    @dev("v_source_source")
    def _(wn): wn.add_valve("v9", "R1", "T1", diameter=0.15, valve_type="TCV", minor_loss=0.0, initial_setting=120.0)
    @dev("p_minor")
    def _(wn): wn.get_link("p3").minor_loss = 2.5
    @dev("p_vertices")
    def _(wn): wn.get_link("p3").vertices = [(22.0, 6.0), (27.5, 2.25)]
    @dev("p_coeffs")
    def _(wn):
        p = wn.get_link("p3"); p.bulk_coeff = -2.0e-6; p.wall_coeff = -1.0e-6
    @dev("p_quality")
    def _(wn): wn.get_link("p3").initial_quality = 0.3
    @dev("p_tag")
    def _(wn): wn.get_link("p3").tag = "main"
    # ---------------- pumps (replace p1)
    def _repl(wn, name):
        wn.remove_link(name)
    @dev("pu_head1", "p1kind")
    def _(wn):
        _repl(wn, "p1"); wn.add_curve("hc1", "HEAD", [(0.05, 30.0)]); wn.add_pump("p1", "R1", "J1", "HEAD", "hc1")
    @dev("pu_head3", "p1kind")
    def _(wn):
        _repl(wn, "p1"); wn.add_curve("hc3", "HEAD", [(0.0, 40.0), (0.05, 32.0), (0.1, 12.0)]); wn.add_pump("p1", "R1", "J1", "HEAD", "hc3")
    @dev("pu_head5", "p1kind")
    def _(wn):
        _repl(wn, "p1"); wn.add_curve("hc5", "HEAD", [(0.0, 42.0), (0.02, 40.0), (0.05, 33.0), (0.08, 21.0), (0.1, 10.0)])
        wn.add_pump("p1", "R1", "J1", "HEAD", "hc5")
    @dev("pu_power", "p1kind")
    def _(wn):
        _repl(wn, "p1"); wn.add_pump("p1", "R1", "J1", "POWER", 15000.0)
    @dev("pu_speed", "p1kind")
    def _(wn):
        _repl(wn, "p1"); wn.add_curve("hc1", "HEAD", [(0.05, 30.0)]); wn.add_pump("p1", "R1", "J1", "HEAD", "hc1", speed=1.2)
    @dev("pu_head3_unsorted", "p1kind")     # the three curve points given design point first (a curve keeps the order it was given)
    def _(wn):
        _repl(wn, "p1"); wn.add_curve("hc1", "HEAD", [(0.05, 30.0), (0.0, 40.0), (0.1, 10.0)]); wn.add_pump("p1", "R1", "J1", "HEAD", "hc1")
    @dev("pu_two_pumps", "p1kind")     # a pump with its own speed and speed pattern FOLLOWED by a pump with the defaults
    def _(wn):
        _repl(wn, "p1"); wn.add_curve("hc1", "HEAD", [(0.05, 30.0)]); wn.add_pump("p1", "R1", "J1", "HEAD", "hc1", speed=0.8, pattern="pat2")
        wn.add_pump("p1b", "R1", "J2", "POWER", 9000.0)
    @dev("pu_speed_low", "p1kind")
    def _(wn):
        _repl(wn, "p1"); wn.add_pump("p1", "R1", "J1", "POWER", 15000.0, speed=0.8)
    @dev("pu_speedpat", "p1kind")
    def _(wn):
        _repl(wn, "p1"); wn.add_curve("hc1", "HEAD", [(0.05, 30.0)]); wn.add_pump("p1", "R1", "J1", "HEAD", "hc1", speed=1.0, pattern="pat2")
    @dev("pu_closed", "p1kind")
    def _(wn):
        _repl(wn, "p1"); wn.add_pump("p1", "R1", "J1", "POWER", 15000.0, initial_status="CLOSED")
    @dev("pu_energy", "p1kind")
    def _(wn):
        _repl(wn, "p1"); wn.add_curve("hc1", "HEAD", [(0.05, 30.0)]); wn.add_curve("ec1", "EFFICIENCY", [(0.0, 50.0), (0.05, 80.0), (0.1, 60.0)])
        wn.add_pump("p1", "R1", "J1", "HEAD", "hc1")
        p = wn.get_link("p1"); p.efficiency = wn.get_curve("ec1"); p.energy_price = 2.5e-8; p.energy_pattern = "pat1"
    @dev("pu_vertices_tag", "p1kind")
    def _(wn):
        _repl(wn, "p1"); wn.add_pump("p1", "R1", "J1", "POWER", 15000.0)
        p = wn.get_link("p1"); p.vertices = [(3.0, 1.0)]; p.tag = "station"
    # ---------------- valves (replace p2: J1-J2 are junctions)
    for vt, setting in (("PRV", 25.0), ("PSV", 15.0), ("PBV", 4.0), ("FCV", 0.015), ("TCV", 12.0)):
        def mk(vt=vt, setting=setting):
            def f(wn):
                _repl(wn, "p2"); wn.add_valve("p2", "J1", "J2", diameter=0.25, valve_type=vt, minor_loss=0.5, initial_setting=setting)
            return f
        D["v_" + vt.lower()] = ("p2kind", mk())
    @dev("v_gpv", "p2kind")
    def _(wn):
        _repl(wn, "p2"); wn.add_curve("gc1", "HEADLOSS", [(0.0, 0.0), (0.05, 2.0), (0.1, 9.0)])
        wn.add_valve("p2", "J1", "J2", diameter=0.25, valve_type="GPV", minor_loss=0.0, initial_setting="gc1")
    @dev("v_prv_open", "p2kind")
    def _(wn):
        _repl(wn, "p2"); wn.add_valve("p2", "J1", "J2", diameter=0.25, valve_type="PRV", minor_loss=0.0, initial_setting=25.0, initial_status="OPEN")
    @dev("v_tcv_closed", "p2kind")
    def _(wn):
        _repl(wn, "p2"); wn.add_valve("p2", "J1", "J2", diameter=0.25, valve_type="TCV", minor_loss=0.0, initial_setting=12.0, initial_status="CLOSED")
    @dev("v_fcv_vertices_tag", "p2kind")
    def _(wn):
        _repl(wn, "p2"); wn.add_valve("p2", "J1", "J2", diameter=0.25, valve_type="FCV", minor_loss=0.0, initial_setting=0.015)
        v = wn.get_link("p2"); v.vertices = [(15.0, 4.0)]; v.tag = "fcv-tag"
    @dev("v_quality", "p2kind")
    def _(wn):
        _repl(wn, "p2"); wn.add_valve("p2", "J1", "J2", diameter=0.25, valve_type="TCV", minor_loss=0.0, initial_setting=12.0)
        wn.get_link("p2").initial_quality = 0.25
    @dev("pu_quality", "p1kind")
    def _(wn):
        _repl(wn, "p1"); wn.add_pump("p1", "R1", "J1", "POWER", 15000.0)
        wn.get_link("p1").initial_quality = 0.15
    # ---------------- sources
    for st, q, pat in (("CONCEN", 1.2, None), ("MASS", 3.0e-6, "pat1"), ("FLOWPACED", 0.7, "pat2"), ("SETPOINT", 0.9, None)):
        def mk(st=st, q=q, pat=pat):
            def f(wn): wn.add_source("src1", "J1", st, q, pat)
            return f
        D["s_" + st.lower()] = ("source", mk())
    @dev("s_two")
    def _(wn):
        wn.add_source("src2", "R1", "CONCEN", 2.0, "pat1"); wn.add_source("src3", "J3", "MASS", 1.0e-6, None)
    # ---------------- curves nobody uses
    @dev("c_untyped")
    def _(wn): wn.add_curve("loose", None, [(0.0, 1.0), (1.0, 2.0)])
    # ---------------- options
    @dev("o_time")
    def _(wn):
        t = wn.options.time
        t.duration = 27 * 3600; t.hydraulic_timestep = 1800; t.quality_timestep = 300; t.rule_timestep = 600; t.pattern_timestep = 7200
        t.pattern_start = 3600; t.report_timestep = 3600; t.report_start = 7200; t.start_clocktime = 6 * 3600 + 1800; t.statistic = "AVERAGED"
    @dev("o_time_odd")
    def _(wn):
        # legal but unusual relations between the time options: hydraulic step below the quality and report steps' usual
        # order, rule step above the hydraulic step, pattern step and report start beyond the duration
        t = wn.options.time
        t.hydraulic_timestep = 60; t.rule_timestep = 7200; t.report_timestep = 30; t.pattern_timestep = 100000; t.report_start = 30000
    @dev("o_clock_pm", "clock")
    def _(wn): wn.options.time.start_clocktime = 13 * 3600 + 900
    @dev("o_clock_noon", "clock")
    def _(wn): wn.options.time.start_clocktime = 12 * 3600 + 900
    @dev("o_clock_midnight", "clock")
    def _(wn): wn.options.time.start_clocktime = 1800
    @dev("o_hyd")
    def _(wn):
        h = wn.options.hydraulic
        h.viscosity = 1.1; h.specific_gravity = 0.98; h.trials = 55; h.accuracy = 0.0005; h.unbalanced = "CONTINUE"; h.unbalanced_value = 12
        h.demand_multiplier = 1.3; h.emitter_exponent = 0.6; h.checkfreq = 3; h.maxcheck = 11; h.damplimit = 0.01
    @dev("o_headloss_dw", "headloss")      # Darcy-Weisbach: roughness heights in metres (written in mm / millifeet)
    def _(wn):
        wn.options.hydraulic.headloss = "D-W"
        for i, (n, p) in enumerate(wn.pipes()):
            p.roughness = [0.00026, 0.0015, 4.5e-05, 0.0003][i % 4]
    @dev("o_headloss_cm", "headloss")      # Chezy-Manning: roughness is Manning's n
    def _(wn):
        wn.options.hydraulic.headloss = "C-M"
        for i, (n, p) in enumerate(wn.pipes()):
            p.roughness = [0.012, 0.015, 0.011, 0.02][i % 4]
    @dev("o_user")                   # user-defined options (kept in the dictionary / JSON forms; an INP file has no place for them)
    def _(wn): wn.options.user = {"scenario": "fire-3", "n_samples": 250, "seeds": [3, 5, 8]}
    @dev("o_pdd")
    def _(wn):
        h = wn.options.hydraulic
        h.demand_model = "PDD"; h.minimum_pressure = 3.0; h.required_pressure = 21.0; h.pressure_exponent = 0.55
    @dev("o_defpat")
    def _(wn): wn.options.hydraulic.pattern = "pat2"
    @dev("o_qual_age", "qual")
    def _(wn): wn.options.quality.parameter = "AGE"
    @dev("o_qual_trace", "qual")
    def _(wn):
        wn.options.quality.parameter = "TRACE"; wn.options.quality.trace_node = "R1"
    @dev("o_qual_chem", "qual")
    def _(wn):
        q = wn.options.quality
        q.parameter = "CHEMICAL"; q.chemical_name = "CL2"; q.inpfile_units = "ug/L"; q.diffusivity = 1.3; q.tolerance = 0.02
    @dev("o_reaction")
    def _(wn):
        r = wn.options.reaction
        r.bulk_order = 2.0; r.wall_order = 0.0; r.tank_order = 1.0; r.bulk_coeff = -0.25; r.wall_coeff = -1.0e-6
        r.limiting_potential = 0.1; r.roughness_correl = -0.5
    @dev("o_energy")
    def _(wn):
        e = wn.options.energy
        e.global_price = 3.0e-8; e.global_pattern = "pat1"; e.global_efficiency = 65.0; e.demand_charge = 2.0
    @dev("o_report")
    def _(wn):
        r = wn.options.report
        r.status = "FULL"; r.summary = "NO"; r.energy = "YES"; r.nodes = True; r.links = True; r.pagesize = 40
    # ---------------- controls
    def act(wn, link, attr, val):
        return C.ControlAction(wn.get_link(link), attr, val)
    @dev("k_time_close", "ctl1")
    def _(wn): wn.add_control("c1", C.Control(C.SimTimeCondition(wn, "=", 2 * 3600), act(wn, "p3", "status", LS.Closed)))
    @dev("k_time_ge", "ctl1")          # API only: a simple control on 'time >= t' (an INP control line only knows AT TIME)
    def _(wn): wn.add_control("c1", C.Control(C.SimTimeCondition(wn, ">=", 2 * 3600 + 600), act(wn, "p3", "status", LS.Closed)))
    @dev("k_clock_after", "ctl1")
    def _(wn): wn.add_control("c1", C.Control(C.TimeOfDayCondition(wn, ">=", 5 * 3600 + 900), act(wn, "p3", "status", LS.Closed)))
    @dev("k_time_offgrid", "ctl1")
    def _(wn): wn.add_control("c1", C.Control(C.SimTimeCondition(wn, "=", 3 * 3600 + 25 * 60), act(wn, "p3", "status", LS.Closed)))
    @dev("k_time_seconds", "ctl1")
    def _(wn): wn.add_control("c1", C.Control(C.SimTimeCondition(wn, "=", 3 * 3600 + 25 * 60 + 7), act(wn, "p3", "status", LS.Closed)))
    @dev("k_clock", "ctl1")
    def _(wn): wn.add_control("c1", C.Control(C.TimeOfDayCondition(wn, "=", 14 * 3600 + 1800), act(wn, "p3", "status", LS.Open)))
    @dev("k_level_above", "ctl2")
    def _(wn): wn.add_control("c2", C.Control(C.ValueCondition(wn.get_node("T1"), "level", ">", 5.25), act(wn, "p4", "status", LS.Closed), priority=5))
    @dev("k_level_below", "ctl2")
    def _(wn): wn.add_control("c2", C.Control(C.ValueCondition(wn.get_node("T1"), "level", "<", 1.75), act(wn, "p4", "status", LS.Open)))
    @dev("k_pressure", "ctl2")
    def _(wn): wn.add_control("c2", C.Control(C.ValueCondition(wn.get_node("J3"), "pressure", "<", 14.5), act(wn, "p3", "status", LS.Open)))
    @dev("k_two_controls", "ctl2")
    def _(wn):
        wn.add_control("c2", C.Control(C.ValueCondition(wn.get_node("T1"), "level", "<", 1.75), act(wn, "p4", "status", LS.Open)))
        wn.add_control("c3", C.Control(C.ValueCondition(wn.get_node("T1"), "level", ">", 5.25), act(wn, "p4", "status", LS.Closed)))
    @dev("rk_rule_then_simple", "rk")       # API order: a rule registered BEFORE simple controls
    def _(wn):
        wn.add_control("ruleA", C.Rule(C.ValueCondition(wn.get_node("T1"), "level", ">=", 5.5), [act(wn, "p4", "status", LS.Closed)], priority=3))
        wn.add_control("cA", C.Control(C.SimTimeCondition(wn, "=", 2 * 3600), act(wn, "p3", "status", LS.Closed)))
        wn.add_control("cB", C.Control(C.ValueCondition(wn.get_node("T1"), "level", "<", 1.5), act(wn, "p4", "status", LS.Open)))
    @dev("r_named_differently", "rk")       # a rule whose own name differs from the key it is registered under
    def _(wn):
        wn.add_control("night_rule", C.Rule(C.SimTimeCondition(wn, ">=", 5 * 3600), [act(wn, "p3", "status", LS.Closed)], priority=2, name="close_p3"))
    @dev("r_and_else", "rule1")
    def _(wn):
        cond = C.AndCondition(C.ValueCondition(wn.get_node("T1"), "level", "<", 2.0), C.SimTimeCondition(wn, ">=", 7200))
        wn.add_control("rule1", C.Rule(cond, [act(wn, "p3", "status", LS.Closed)], [act(wn, "p3", "status", LS.Open)], priority=2))
    @dev("r_or_two_actions", "rule1")
    def _(wn):
        cond = C.OrCondition(C.ValueCondition(wn.get_node("J3"), "pressure", ">", 40.0), C.ValueCondition(wn.get_node("T1"), "level", ">=", 5.5))
        wn.add_control("rule1", C.Rule(cond, [act(wn, "p3", "status", LS.Closed), act(wn, "p4", "status", LS.Closed)], priority=4))
    @dev("r_two_else_actions", "rule1")
    def _(wn):
        cond = C.ValueCondition(wn.get_node("T1"), "level", ">", 4.5)
        wn.add_control("rule1", C.Rule(cond, [act(wn, "p3", "status", LS.Closed)], [act(wn, "p3", "status", LS.Open), act(wn, "p4", "status", LS.Closed), act(wn, "p2", "status", LS.Open)], priority=2))
    @dev("r_three_then_two_else", "rule1")
    def _(wn):
        cond = C.OrCondition(C.SimTimeCondition(wn, ">=", 3 * 3600), C.ValueCondition(wn.get_node("J3"), "pressure", "<", 12.0))
        wn.add_control("rule1", C.Rule(cond, [act(wn, "p3", "status", LS.Closed), act(wn, "p4", "status", LS.Open), act(wn, "p2", "status", LS.Closed)],
                                      [act(wn, "p2", "status", LS.Open), act(wn, "p3", "status", LS.Open)]))
    @dev("r_clock_noprio", "rule1")
    def _(wn):
        cond = C.TimeOfDayCondition(wn, ">=", 20 * 3600)
        wn.add_control("rule1", C.Rule(cond, [act(wn, "p3", "status", LS.Closed)]))
    @dev("r_clock_after_midnight", "rule1")
    def _(wn):
        cond = C.TimeOfDayCondition(wn, ">=", 1800)
        wn.add_control("rule1", C.Rule(cond, [act(wn, "p3", "status", LS.Closed)], priority=3))
    @dev("r_clock_after_noon", "rule1")
    def _(wn):
        cond = C.AndCondition(C.TimeOfDayCondition(wn, ">=", 12 * 3600 + 1800), C.TimeOfDayCondition(wn, "<", 23 * 3600 + 900))
        wn.add_control("rule1", C.Rule(cond, [act(wn, "p3", "status", LS.Closed)], [act(wn, "p3", "status", LS.Open)], priority=3))
    @dev("r_relative", "rule1")
    def _(wn):
        cond = C.RelativeCondition(wn.get_node("T1"), "level", ">", wn.get_node("T1"), "min_level")
        wn.add_control("rule1", C.Rule(cond, [act(wn, "p3", "status", LS.Open)], priority=3))
    @dev("k_junction_head", "ctl2")
    def _(wn): wn.add_control("c2", C.Control(C.ValueCondition(wn.get_node("J3"), "head", ">", 35.5), act(wn, "p3", "status", LS.Closed)))
    @dev("k_clock_after_midnight", "ctl1")
    def _(wn): wn.add_control("c1", C.Control(C.TimeOfDayCondition(wn, "=", 900), act(wn, "p3", "status", LS.Open)))
    @dev("r_head_demand", "rule1")
    def _(wn):
        cond = C.AndCondition(C.ValueCondition(wn.get_node("J2"), "head", ">", 33.0), C.ValueCondition(wn.get_node("J1"), "demand", "<=", 0.005))
        wn.add_control("rule1", C.Rule(cond, [act(wn, "p4", "status", LS.Open)], priority=1))
    @dev("r_link_flow", "rule2")
    def _(wn):
        cond = C.ValueCondition(wn.get_link("p4"), "flow", "<", 0.002)
        wn.add_control("rule2", C.Rule(cond, [act(wn, "p3", "status", LS.Closed)], priority=3))
    @dev("r_link_status", "rule2")
    def _(wn):
        cond = C.ValueCondition(wn.get_link("p4"), "status", "=", LS.Closed)
        wn.add_control("rule2", C.Rule(cond, [act(wn, "p3", "status", LS.Open)], priority=3))
    # ---------------- states reached through an edit history
    @dev("j_leak_removed")
    def _(wn):
        j = wn.get_node("J3"); j.add_leak(wn, area=1.5e-4, discharge_coeff=0.6, start_time=3600, end_time=7200); j.remove_leak(wn)
    @dev("t_leak_removed", "t_leak")
    def _(wn):
        t = wn.get_node("T1"); t.add_leak(wn, area=2.5e-4, discharge_coeff=0.7, start_time=0, end_time=None); t.remove_leak(wn)
    @dev("h_demand_removed")
    def _(wn):
        j = wn.get_node("J2"); j.add_demand(0.004, "pat2", "ind"); del j.demand_timeseries_list[0]
    @dev("h_pattern_unused")
    def _(wn): wn.add_pattern("never_used", [2.0, 0.0, 1.0])
    # ---------------- nested rule conditions, a non-wrapping pattern, report lists
    @dev("r_or_of_and", "rule1")
    def _(wn):
        a = C.ValueCondition(wn.get_node("T1"), "level", "<", 2.0); b = C.SimTimeCondition(wn, ">=", 7200)
        c = C.ValueCondition(wn.get_node("J3"), "pressure", ">", 40.0)
        wn.add_control("rule1", C.Rule(C.OrCondition(C.AndCondition(a, b), c), [act(wn, "p3", "status", LS.Closed)], priority=3))
    @dev("r_and_of_or", "rule1")
    def _(wn):
        a = C.ValueCondition(wn.get_node("T1"), "level", "<", 2.0); b = C.SimTimeCondition(wn, ">=", 7200)
        c = C.ValueCondition(wn.get_node("J3"), "pressure", ">", 40.0)
        wn.add_control("rule1", C.Rule(C.AndCondition(C.OrCondition(a, b), c), [act(wn, "p3", "status", LS.Closed)], priority=3))
    @dev("r_three_and", "rule1")
    def _(wn):
        a = C.ValueCondition(wn.get_node("T1"), "level", "<", 2.0); b = C.SimTimeCondition(wn, ">=", 7200)
        c = C.ValueCondition(wn.get_node("J3"), "pressure", ">", 40.0)
        wn.add_control("rule1", C.Rule(C.AndCondition(C.AndCondition(a, b), c), [act(wn, "p3", "status", LS.Closed)], [act(wn, "p3", "status", LS.Open)], priority=3))
    @dev("pat_nowrap")
    def _(wn):
        wn.add_pattern("pnw", wntr.network.elements.Pattern("pnw", [1.0, 0.5, 2.0], time_options=wn.options.time, wrap=False))
        wn.get_node("J2").demand_timeseries_list[0].pattern_name = "pnw"
    @dev("o_report_lists")
    def _(wn):
        wn.options.report.nodes = ["J1", "J2"]; wn.options.report.links = ["p1"]
    # ---------------- legal values that are falsy (0, 0.0): every `x or default` / `if x:` slip shows on exactly these
    @dev("z_pump_speed0", "p1kind")
    def _(wn):
        _repl(wn, "p1"); wn.add_pump("p1", "R1", "J1", "POWER", 15000.0, speed=0.0)
    @dev("z_hpump_speed0", "p1kind")
    def _(wn):
        _repl(wn, "p1"); wn.add_curve("hc1", "HEAD", [(0.05, 30.0)]); wn.add_pump("p1", "R1", "J1", "HEAD", "hc1", speed=0.0, pattern="pat2")
    @dev("z_elev0")
    def _(wn):
        wn.get_node("J1").elevation = 0.0; wn.get_node("T1").elevation = 0.0
    @dev("z_res_head0")
    def _(wn): wn.get_node("R1").base_head = 0.0
    @dev("z_tank_levels0")
    def _(wn):
        t = wn.get_node("T1"); t.min_level = 0.0; t.init_level = 0.0
    @dev("z_demand0_pattern", "j2dem")
    def _(wn):
        j = wn.get_node("J2"); j.demand_timeseries_list[0].base_value = 0.0; j.demand_timeseries_list[0].pattern_name = "pat2"
        j.add_demand(0.004, "pat1", "ind")
    @dev("z_pattern_zero")
    def _(wn):
        wn.add_pattern("pz", [0.0, 1.0, 0.0]); wn.get_node("J2").demand_timeseries_list[0].pattern_name = "pz"
    @dev("z_tcv_setting0", "p2kind")
    def _(wn):
        _repl(wn, "p2"); wn.add_valve("p2", "J1", "J2", diameter=0.25, valve_type="TCV", minor_loss=0.0, initial_setting=0.0)
    @dev("z_prv_setting0", "p2kind")
    def _(wn):
        _repl(wn, "p2"); wn.add_valve("p2", "J1", "J2", diameter=0.25, valve_type="PRV", minor_loss=0.0, initial_setting=0.0)
    @dev("z_source0", "source")
    def _(wn): wn.add_source("src1", "J1", "CONCEN", 0.0, "pat1")
    @dev("z_coeffs0")
    def _(wn):
        p = wn.get_link("p3"); p.bulk_coeff = 0.0; p.wall_coeff = 0.0; wn.get_node("T1").bulk_coeff = 0.0
    @dev("z_level_threshold0", "ctl2")
    def _(wn): wn.add_control("c2", C.Control(C.ValueCondition(wn.get_node("T1"), "level", ">", 0.0), act(wn, "p4", "status", LS.Open), priority=0))
    @dev("z_time0", "ctl1")
    def _(wn): wn.add_control("c1", C.Control(C.SimTimeCondition(wn, "=", 0), act(wn, "p3", "status", LS.Closed)))
    @dev("z_clock0", "ctl1")
    def _(wn): wn.add_control("c1", C.Control(C.TimeOfDayCondition(wn, "=", 0), act(wn, "p3", "status", LS.Closed)))
    @dev("z_rule_prio0", "rule1")
    def _(wn):
        cond = C.ValueCondition(wn.get_node("T1"), "level", "<=", 0.0)
        wn.add_control("rule1", C.Rule(cond, [act(wn, "p3", "status", LS.Closed)], [act(wn, "p3", "status", LS.Open)], priority=0))
    @dev("z_options0")
    def _(wn):
        o = wn.options
        o.quality.diffusivity = 0.0; o.quality.tolerance = 0.0; o.reaction.bulk_order = 0.0; o.reaction.tank_order = 0.0
        o.hydraulic.emitter_exponent = 1.0; o.energy.global_efficiency = 0.0; o.hydraulic.unbalanced_value = 0
    return D


# deviations that need a particular element kind on p1 / p2
def paired():
    """deviations that only make sense together with another one: (name, requires, function)"""
    import wntr
    from wntr.network import controls as C
    LS = wntr.network.LinkStatus
    P = []

    def act(wn, link, attr, val):
        return C.ControlAction(wn.get_link(link), attr, val)
    P.append(("k_valve_setting", ("v_prv", "v_psv", "v_pbv", "v_fcv", "v_tcv"),
              lambda wn: wn.add_control("cs", C.Control(C.SimTimeCondition(wn, "=", 3 * 3600), act(wn, "p2", "setting", {"PRV": 30.0, "PSV": 10.0, "PBV": 6.0, "FCV": 0.02, "TCV": 20.0}[wn.get_link("p2").valve_type])))))
    P.append(("r_valve_setting", ("v_prv", "v_psv", "v_fcv", "v_tcv"),
              lambda wn: wn.add_control("rs", C.Rule(C.ValueCondition(wn.get_node("T1"), "level", "<", 2.5), [act(wn, "p2", "setting", {"PRV": 30.0, "PSV": 10.0, "FCV": 0.02, "TCV": 20.0}[wn.get_link("p2").valve_type])], priority=3))))
    P.append(("r_valve_setting_cond", ("v_prv", "v_fcv"),
              lambda wn: wn.add_control("rc", C.Rule(C.ValueCondition(wn.get_link("p2"), "setting", ">", {"PRV": 22.0, "FCV": 0.01}[wn.get_link("p2").valve_type]), [act(wn, "p3", "status", LS.Closed)], priority=3))))
    P.append(("k_valve_status", ("v_prv", "v_tcv", "v_gpv"),
              lambda wn: wn.add_control("cv", C.Control(C.ValueCondition(wn.get_node("T1"), "level", ">", 5.0), act(wn, "p2", "status", LS.Closed)))))
    P.append(("k_pump_status", ("pu_head1", "pu_power", "pu_head3"),
              lambda wn: wn.add_control("cp", C.Control(C.ValueCondition(wn.get_node("T1"), "level", ">", 5.5), act(wn, "p1", "status", LS.Closed)))))
    P.append(("z_valve_setting_to0", ("v_tcv", "v_prv"),
              lambda wn: wn.add_control("cz", C.Control(C.SimTimeCondition(wn, "=", 3 * 3600), act(wn, "p2", "setting", 0.0)))))
    P.append(("z_pump_speed_to0", ("pu_head1", "pu_power"),
              lambda wn: wn.add_control("cy", C.Control(C.SimTimeCondition(wn, "=", 4 * 3600), act(wn, "p1", "base_speed", 0.0)))))
    P.append(("k_pump_speed", ("pu_head1", "pu_power"),
              lambda wn: wn.add_control("cq", C.Control(C.SimTimeCondition(wn, "=", 4 * 3600), act(wn, "p1", "base_speed", 0.8)))))
    P.append(("r_pump_else", ("pu_head1", "pu_power"),
              lambda wn: wn.add_control("rp", C.Rule(C.ValueCondition(wn.get_node("T1"), "level", "<=", 2.0), [act(wn, "p1", "status", LS.Open)], [act(wn, "p1", "status", LS.Closed)], priority=5))))
    return P


NAMED_PAIRS = [("o_reaction", "p_coeffs"), ("o_reaction", "t_bulk"), ("o_qual_chem", "s_mass"), ("o_qual_chem", "s_concen"),
               ("o_qual_chem", "j_quality"), ("o_defpat", "j_second_demand"), ("o_defpat", "j_no_demand"), ("o_time", "k_clock"),
               ("o_clock_pm", "k_clock"), ("o_time", "r_clock_noprio"), ("o_pdd", "j_pdd_params"), ("o_energy", "pu_energy"),
               ("t_volcurve", "k_level_above"), ("t_volcurve", "t_overflow"), ("t_volcurve", "t_minvol"), ("o_clock_pm", "r_clock_after_noon"), ("p_cv", "k_time_close"), ("j_second_demand", "o_hyd"), ("o_hyd", "j_emitter"),
               ("o_reaction", "z_coeffs0"), ("o_defpat", "z_demand0_pattern"), ("o_time", "z_clock0"), ("o_clock_pm", "z_clock0"),
               ("o_time", "z_time0"), ("o_pdd", "z_elev0"), ("o_qual_chem", "z_source0"), ("o_energy", "z_pump_speed0")]


NOT_IN_INP = ("j_leak", "t_leak", "r_relative", "k_junction_head", "j_leak_removed", "t_leak_removed", "pat_nowrap", "p_cv_closed", "k_time_ge", "k_clock_after", "t_mixfrac_only", "o_user")      # WNTR-only: no place in the INP format


def enumerate_specs(dmax, keep=None):
    """list of specs {'devs': [names...]}: base, singles, named pairs, and (dmax >= 2) all compatible pairs."""
    D = catalogue()
    names = [n for n in D if keep is None or keep(n)]
    out = [{"devs": []}]
    for n in names:
        out.append({"devs": [n]})
    for pn, reqs, _ in paired():
        for r in reqs:
            if r in names:
                out.append({"devs": [r, pn]})
    for a, b in NAMED_PAIRS:
        if a in names and b in names:
            out.append({"devs": [a, b]})
    if dmax >= 2:
        done = set(frozenset(p) for p in NAMED_PAIRS)
        for a, b in itertools.combinations(names, 2):
            if frozenset((a, b)) in done:
                continue
            if D[a][0] != D[b][0]:
                out.append({"devs": [a, b]})
    return out


def build(spec):
    D = catalogue()
    Pd = {p[0]: p for p in paired()}
    wn = base_model()
    # deviations that replace a link (pump on p1, valve on p2) first: later ones (controls, rules) may refer to that link
    for n in sorted(spec["devs"], key=lambda n: 0 if (n in D and D[n][0] in ("p1kind", "p2kind")) else 1):
        if n in D:
            D[n][1](wn)
        else:
            Pd[n][2](wn)
    return wn
