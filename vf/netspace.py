"""The shared tiny-network family: 8 skeletons + a finite deviation catalogue; cases = skeleton x every subset of
<= d deviations (stateless, deviation-bounded enumeration).  Everything is written out; nothing is random."""
import itertools
from .net import *

PATS = {"P0": [0.0, 1.5, 0.0, 2.0], "P1": [1.0, 2.0, 0.5], "P5": [0.6, 1.4, 1.0, 0.2, 1.8], "PH": [1.0, 0.9, 1.1], "PD": [2.0, 2.0, 0.3, 0.3, 0.3, 0.3], "PN": [1.5, 0.5]}


def skeletons():
    sk = {}
    sk["chain"] = spec([R("R"), J("J1"), J("J2", 5.0)], [P("p1", "R", "J1"), P("p2", "J1", "J2")])
    sk["tee"] = spec([R("R"), J("J1"), J("J2", 5.0), J("J3", 2.0, [[0.02, None, None]])],
                     [P("p1", "R", "J1"), P("p2", "J1", "J2"), P("p3", "J1", "J3")])
    sk["loop"] = spec([R("R"), J("J1"), J("J2", 5.0), J("J3", 2.0, [[0.02, None, None]])],
                      [P("p1", "R", "J1"), P("p2", "J1", "J2"), P("p3", "J2", "J3"), P("p4", "J3", "J1", L=700.0)])
    sk["par"] = spec([R("R"), J("J1"), J("J2", 5.0), J("J3", 2.0)],
                     [P("p1", "R", "J1"), P("p2", "J1", "J2"), P("p3", "J1", "J2", L=650.0, D=0.2), P("p4", "J2", "J3")])
    sk["twosrc"] = spec([R("R"), J("J1"), J("J2", 5.0, [[0.03, None, None]]), T("T")],
                        [P("p1", "R", "J1"), P("p2", "J1", "J2"), P("p3", "J2", "T")], OPTS(dur=6 * 3600))
    sk["tankmid"] = spec([R("R"), J("J1"), T("T"), J("J2", 5.0, [[0.03, None, None]])],
                         [P("p1", "R", "J1"), P("p2", "J1", "T"), P("p3", "T", "J2")], OPTS(dur=6 * 3600))
    sk["pumpfeed"] = spec([R("R", 10.0), J("J1"), J("J2", 5.0, [[0.02, None, None]]), T("T")],
                          [HP("pu", "R", "J1", [[0.05, 40.0]]), P("p2", "J1", "J2"), P("p3", "J2", "T")],
                          OPTS(dur=6 * 3600))
    # a tank that floats on the network through a link drawn junction -> tank, drains to its minimum level within the
    # second hour (its link is shut by the simulator) and refills when the demand drops
    sk["drain"] = spec([R("R", 33.0), J("J1", 0.0, [[0.06, "PD", None]]), T("T", init=0.8)],
                       [P("p1", "R", "J1"), P("p2", "J1", "T")], OPTS(dur=6 * 3600))
    # sources joined DIRECTLY by links (no junction in between): reservoir - tank - tank, then the demand junctions
    sk["direct"] = spec([R("R"), T("T", elev=34.0, diam=12.0), T("T2", elev=31.0, diam=10.0), J("J1"), J("J2", 5.0, [[0.03, None, None]])],
                        [P("p1", "R", "T", L=900.0, D=0.2), P("p2", "T", "T2", L=300.0, D=0.2), P("p3", "T2", "J1"), P("p4", "J1", "J2")],
                        OPTS(dur=6 * 3600))
    for s in sk.values():
        s["patterns"] = dict(PATS)
    return sk


def catalogue(s):
    """all deviations applicable to spec s, as JSON dicts."""
    D = []
    ends = {n["n"]: n["t"] for n in s["nodes"]}
    for l in s["links"]:
        ln = l["n"]
        D.append({"k": "reverse", "l": ln})
        D.append({"k": "closed", "l": ln})
        D.append({"k": "ctl_toggle", "l": ln})
        if l["t"] == "pipe":
            for k in ("cv", "K5", "D100", "D600", "C60", "C140", "L50", "L2000"):
                D.append({"k": k, "l": ln})
            for k in ("hpump1", "hpump2", "hpump3", "ppump"):
                D.append({"k": k, "l": ln})
            if ends[l["a"]] == "junc" and ends[l["b"]] == "junc":
                for vt, sets in (("PRV", (20.0, 80.0)), ("PSV", (20.0, 47.0)), ("FCV", (0.005, 1.0)), ("TCV", (50.0, 0.0))):
                    for sv in sets:
                        D.append({"k": "valve", "l": ln, "vt": vt, "setting": sv})
            else:
                for sv in (50.0, 0.0):
                    D.append({"k": "valve", "l": ln, "vt": "TCV", "setting": sv})
    for n in s["nodes"]:
        nn = n["n"]
        if n["t"] == "junc":
            for k in ("elev_high", "dem2", "dem2c", "dem0", "demneg", "pat0", "pat1", "pat5", "patnw", "leak", "leak_window", "nodemand_list"):
                D.append({"k": k, "n": nn})
        elif n["t"] == "tank":
            for k in ("near_min", "near_max", "small", "vcurve", "tleak"):
                D.append({"k": k, "n": nn})
        elif n["t"] == "res":
            D.append({"k": "headpat", "n": nn})
            D.append({"k": "as_tank", "n": nn})
    for k in ("pdd", "pddmin", "pddhi", "mult2", "mult05", "pstart1h", "pstart90m", "hyd30", "hyd15all", "pat30", "pat2h", "rep2h",
              "piecewise", "clock3h", "revorder", "interp", "defpat", "lateopts"):
        D.append({"k": k})
    return D


def apply(s, d):
    """returns the modified spec, or None if the deviation does not apply / would be ill-formed."""
    k = d["k"]
    o = s["opts"]
    if "l" in d:
        l = link(s, d["l"])
        if k == "reverse":
            l["a"], l["b"] = l["b"], l["a"]
        elif k == "closed":
            if l["status"] == "CLOSED":
                return None
            l["status"] = "CLOSED"
        elif k == "ctl_toggle":
            # time controls close the link at 1 h and reopen it at 3 h (whatever lies behind it is cut off and reconnected)
            s["controls"] = s["controls"] + [{"kind": "time", "t": 3600, "link": l["n"], "value": "CLOSED", "name": "tg0_" + l["n"]},
                                             {"kind": "time", "t": 3 * 3600, "link": l["n"], "value": "OPEN", "name": "tg1_" + l["n"]}]
        elif l["t"] != "pipe":
            return None
        elif k == "cv":
            l["cv"] = True
        elif k == "K5":
            l["K"] = 5.0
        elif k == "D100":
            l["D"] = 0.1
        elif k == "D600":
            l["D"] = 0.6
        elif k == "C60":
            l["C"] = 60.0
        elif k == "C140":
            l["C"] = 140.0
        elif k == "L50":
            l["L"] = 50.0
        elif k == "L2000":
            l["L"] = 2000.0
        elif k in ("hpump1", "hpump2", "hpump3", "ppump"):
            st = l["status"]
            base = {"n": l["n"], "a": l["a"], "b": l["b"], "status": st}
            if k == "ppump":
                base.update(t="ppump", power=5000.0)
            else:
                base.update(t="hpump", curve={"hpump1": [[0.05, 30.0]], "hpump2": [[0.0, 40.0], [0.1, 10.0]],
                                              "hpump3": [[0.0, 40.0], [0.05, 32.0], [0.1, 12.0]]}[k])
            s["links"][s["links"].index(l)] = base
        elif k == "valve":
            s["links"][s["links"].index(l)] = V(l["n"], l["a"], l["b"], d["vt"], d["setting"], D=l["D"], K=l["K"],
                                               status="CLOSED" if l["status"] == "CLOSED" else "ACTIVE")
        else:
            raise KeyError(k)
        return s
    if "n" in d:
        n = node(s, d["n"])
        if k == "elev_high":
            n["elev"] = 70.0
        elif k == "dem2":
            n["demands"] = n["demands"] + [[0.004, "P5", "cat2"]]
        elif k == "dem2c":
            # a patterned entry FOLLOWED by a constant one (the order matters to a writer that goes through the list)
            if not n["demands"]:
                return None
            n["demands"] = [[n["demands"][0][0], "P1", "dom"], [0.004, None, "cat2"]] + n["demands"][1:]
        elif k == "dem0":
            n["demands"] = [[0.0, None, None]]
        elif k == "nodemand_list":
            n["demands"] = []
        elif k == "demneg":
            # an inflow point (negative demand following a pattern); smaller than any neighbour's demand, and not at a
            # junction whose only neighbours are tanks (ill-posed once the tank is full: the inflow has nowhere to go)
            typ = {m["n"]: m["t"] for m in s["nodes"]}
            nb = [l["b"] if l["a"] == n["n"] else l["a"] for l in s["links"] if n["n"] in (l["a"], l["b"])]
            if all(typ[m] == "tank" for m in nb):
                return None
            n["demands"] = [[-0.004, "P1", None]]
        elif k == "pat1":
            n["demands"] = [[n["demands"][0][0], "P1", n["demands"][0][2]]] + n["demands"][1:] if n["demands"] else None
            if n["demands"] is None:
                return None
        elif k == "pat0":
            # a pattern with zero multipliers: the junction requests nothing in the first and third period
            if not n["demands"]:
                return None
            n["demands"] = [[n["demands"][0][0], "P0", n["demands"][0][2]]] + n["demands"][1:]
        elif k == "pat5":
            if not n["demands"]:
                return None
            n["demands"] = [[n["demands"][0][0], "P5", "dom"]] + n["demands"][1:]
        elif k == "patnw":
            # an additional demand entry on a pattern that does NOT repeat (Pattern(wrap=False), as add_fire_fighting_demand
            # builds): two periods long, nothing afterwards
            if not n["demands"]:
                return None
            n["demands"] = n["demands"] + [[0.006, "PN", "fire"]]
            s["nowrap"] = ["PN"]
        elif k == "leak":
            if n.get("leak"):
                return None
            n["leak"] = {"area": 5e-4, "cd": 0.75, "start": 0, "end": None}
        elif k == "leak_window":
            if n.get("leak"):
                return None
            n["leak"] = {"area": 1e-3, "cd": 0.6, "start": 3600, "end": 3 * 3600}
        elif k == "tleak":
            if n.get("leak"):
                return None
            n["leak"] = {"area": 5e-4, "cd": 0.75, "start": 3600, "end": None}
        elif k == "near_min":
            n["init"] = n["min"] + 0.05
        elif k == "near_max":
            n["init"] = n["max"] - 0.05
        elif k == "small":
            n["diam"] = 5.0
        elif k == "vcurve":
            n["vcurve"] = [[0.0, 0.0], [2.0, 200.0], [4.0, 700.0], [8.0, 1500.0]]
        elif k == "headpat":
            n["head_pat"] = "PH"
        elif k == "as_tank":
            h = n["head"]
            s["nodes"][s["nodes"].index(n)] = T(n["n"], elev=h - 4.0, init=4.0, mn=0.0, mx=8.0, diam=20.0)
        else:
            raise KeyError(k)
        return s
    if k == "pdd":
        o.update(dm="PDD", pmin=0.0, preq=30.0, pexp=0.5)
    elif k == "pddhi":         # a required pressure above every available pressure: partial delivery everywhere
        o.update(dm="PDD", pmin=0.0, preq=60.0, pexp=0.5)
    elif k == "pddmin":        # a non-zero global minimum pressure
        o.update(dm="PDD", pmin=8.0, preq=30.0, pexp=0.5)
    elif k == "mult2":
        o["mult"] = 2.0
    elif k == "mult05":
        o["mult"] = 0.5
    elif k == "pstart1h":
        o["pstart"] = 3600
    elif k == "pstart90m":
        o["pstart"] = 5400
    elif k == "hyd30":
        o["hyd"] = 1800
    elif k == "hyd15all":
        o["hyd"] = 900; o["rep"] = "ALL"
    elif k == "pat30":
        o["pat"] = 1800; o["hyd"] = min(o["hyd"], 1800)
    elif k == "pat2h":
        o["pat"] = 7200
    elif k == "rep2h":
        o["rep"] = 7200
    elif k == "piecewise":
        s["hw"] = "piecewise"
    elif k == "clock3h":
        o["clock"] = 3 * 3600
    elif k == "lateopts":
        # same model, other order of API calls: every option is assigned after patterns, elements and controls were added
        s["late_options"] = True
    elif k == "defpat":
        # a pattern with the default pattern's name: every demand without a pattern of its own follows it
        s["patterns"] = dict(s["patterns"], **{"1": [0.7, 1.3, 1.0, 0.4]})
    elif k == "interp":
        # WNTR-only option: pattern values interpolated linearly inside a pattern period; the hydraulic step is made a
        # fraction of the pattern step so that solved instants fall inside periods
        o["interp"] = True
        o["hyd"] = min(o["hyd"], o["pat"] // 2)
        if o["rep"] != "ALL":
            o["rep"] = o["hyd"]
    elif k == "revorder":
        # same network, elements registered in the opposite order (ids, matrix rows and result columns are positional)
        s["nodes"].reverse(); s["links"].reverse()
    else:
        raise KeyError(k)
    return s


def compatible(d1, d2):
    """two deviations may be combined unless they rewrite the same field."""
    if "l" in d1 and "l" in d2 and d1["l"] == d2["l"]:
        ok = {"reverse", "closed", "ctl_toggle"}
        return (d1["k"] in ok or d2["k"] in ok) and d1["k"] != d2["k"] and {d1["k"], d2["k"]} != {"closed", "ctl_toggle"}
    if "n" in d1 and "n" in d2 and d1["n"] == d2["n"]:
        grp = lambda d: {"dem2": "dA", "dem2c": "dA", "dem0": "d", "demneg": "d", "nodemand_list": "d", "pat0": "d", "pat1": "d", "pat5": "d", "patnw": "dA", "leak": "lk",
                         "leak_window": "lk", "tleak": "lk", "near_min": "lv", "near_max": "lv"}.get(d["k"], d["k"])
        if grp(d1) == grp(d2):
            return False
        if {d1["k"], d2["k"]} & {"dem0", "nodemand_list", "demneg"} and {d1["k"], d2["k"]} & {"dem2", "dem2c", "pat0", "pat1", "pat5", "patnw"}:
            return False
        if "as_tank" in (d1["k"], d2["k"]):
            return False
        return True
    if "l" not in d1 and "n" not in d1 and "l" not in d2 and "n" not in d2:
        grp = lambda d: {"mult2": "m", "mult05": "m", "pstart1h": "ps", "pstart90m": "ps", "hyd30": "h", "hyd15all": "h", "interp": "h",
                         "pat30": "p", "pat2h": "p", "rep2h": "r", "pdd": "pdd", "pddmin": "pdd", "pddhi": "pdd"}.get(d["k"], d["k"])
        if grp(d1) == grp(d2):
            return False
        if {d1["k"], d2["k"]} == {"hyd15all", "rep2h"}:
            return False
    return True


def enumerate_cases(dmax, keep=lambda d: True, skels=None, pairs_keep=None, extra_pairs=()):
    """every skeleton x every subset of <= dmax pairwise-compatible deviations from the kept catalogue.
    pairs_keep(d1,d2) optionally restricts which pairs are formed when dmax >= 2."""
    out = []
    for name, base in skeletons().items():
        if skels and name not in skels:
            continue
        cat = [d for d in catalogue(base) if keep(d)]
        for r in range(0, dmax + 1):
            for combo in itertools.combinations(cat, r):
                if any(not compatible(a, b) for a, b in itertools.combinations(combo, 2)):
                    continue
                if r >= 2 and pairs_keep and not all(pairs_keep(a, b) for a, b in itertools.combinations(combo, 2)):
                    continue
                s = clone(base)
                ok = True
                # structural deviations last so that attribute deviations see the pipe
                for d in sorted(combo, key=lambda d: d["k"] in ("hpump1", "hpump2", "hpump3", "ppump", "valve", "as_tank")):
                    s2 = apply(s, d)
                    if s2 is None:
                        ok = False
                        break
                    s = s2
                if not ok or not valid(s):
                    continue
                s["id"] = {"skel": name, "devs": list(combo)}
                out.append(s)
    return out


def valid(s):
    """static well-formedness: PRV/PSV/FCV not adjacent to a tank or reservoir (the API refuses those) and not
    adjacent to each other (documented as illegal: the junction between two active FCVs has no equation)."""
    typ = {n["n"]: n["t"] for n in s["nodes"]}
    seen = set()
    for l in s["links"]:
        if l["t"] in ("PRV", "PSV", "FCV"):
            if typ[l["a"]] != "junc" or typ[l["b"]] != "junc":
                return False
            # EPANET/WNTR rule: control valves must not share a node or be linked in series
            if l["a"] in seen or l["b"] in seen:
                return False
            seen.update((l["a"], l["b"]))
    # an inflow point (negative demand) needs a way out when every tank is full: a route to a reservoir over links that
    # let water flow away from it (pipes and TCVs both ways; check valves, pumps, PRV/PSV/FCV only forwards; closed or
    # toggled links not at all) - otherwise the model is ill-posed the moment the tank links shut
    for n in s["nodes"]:
        if n["t"] == "junc" and any(b < 0 for b, _, _ in n["demands"]):
            toggled = set(c["link"] for c in s["controls"])
            seen, todo = {n["n"]}, [n["n"]]
            while todo:
                u = todo.pop()
                for l in s["links"]:
                    if l["status"] == "CLOSED" or l["n"] in toggled:
                        continue
                    oneway = (l["t"] == "pipe" and l.get("cv")) or l["t"] in ("hpump", "ppump", "PRV", "PSV", "FCV")
                    for x, y in ((l["a"], l["b"]),) + (() if oneway else ((l["b"], l["a"]),)):
                        if x == u and y not in seen and typ[y] != "tank":
                            seen.add(y); todo.append(y)
            if not any(typ[x] == "res" for x in seen):
                return False
    return True
