"""C04 - time-based controls and rules act exactly at their configured instants (event-timeline reference, cross-validated
against EPANET 2.2 on every case)."""
import itertools
from ..net import *
from .. import epanet as EN

ID = "C04"
LEVEL = "exploration"
RULE = ("fixed network R-p0-J0=(pa || pb)=J1 (closing the target pa never isolates anything), 27 h.  ALL single controls and ALL "
        "sets of 2 (quick) / 3 (thorough, reduced alphabet) controls on the same target drawn from: simple AT TIME t, simple AT "
        "CLOCKTIME c (daily), rule IF SYSTEM TIME rel t, rule IF SYSTEM CLOCKTIME rel c with rel in {=, >, >=, <, <=}, with and "
        "without ELSE, actions OPEN/CLOSED, priorities {1,3,5}; t in {0, 1h, 1h18 (off the hydraulic grid, on the 6-min rule grid), "
        "1h21m40 (off both), 2h, 25h}, c in {0:00, 1:00, 6:30, 23:00, 23:30 and 23:57 (inside the step that ends at midnight)}; start_clocktime {0, 3h, 22h}; hydraulic step {1h, 30min}; rule "
        "step {6 min, 1 h}; report 'ALL'; plus single controls and rules written into an INP file in every time notation EPANET accepts (H:MM:SS, H:MM, decimal hours; clock times with AM/PM, 24-hour with and without seconds; hours 0, 12, 13, 23) and read by the INP reader; plus daily close/reopen pairs (simple and rule) over a 99-hour run; simple clock-range controls with midnight off the grid; runs paused at 1/2/3 h and continued with the instant in the following hydraulic interval.  singles are fully crossed with the options, sets use start {0, 3h} x hyd 1h x rule 6 min.  "
        "oracle: reference event timeline (one-shot time controls, daily clock-time controls, level-triggered rules at positive "
        "multiples of the rule step, rules before simple controls, highest priority wins); every instant at which the timeline "
        "changes must be a solved step and the reported status at every solved step must equal the timeline.  non-trivial: the "
        "timeline changes the target's status at least once after t = 0")
ASSUMPTIONS = ["the reference timeline is validated against EPANET 2.2 (stepped through ENrunH/ENnextH with a hand-written INP file) on every case; a disagreement between reference and EPANET is a harness error, not a violation",
               "same-instant conflicts between two controls of equal priority and kind are outside the statement and kept out of the space",
               "rule steps divide the hydraulic step (EPANET additionally evaluates rules at the end of every hydraulic step, which coincides with the rule grid then)"]

H = 3600
DUR = 27 * H
DAY = 86400
TIMES = [0, H, H + 18 * 60, H + 21 * 60 + 40, 2 * H, 25 * H]
CLOCKS = [0, H, 6 * H + 1800, 23 * H, 23 * H + 1800, 23 * H + 57 * 60]
RELS = ["=", ">", ">=", "<", "<="]


def base(hyd, rule, clock):
    return spec([R("R", 50.0), J("J0", 0.0, [[0.0, None, None]]), J("J1", 5.0, [[0.02, None, None]])],
                [P("p0", "R", "J0"), P("pa", "J0", "J1"), P("pb", "J0", "J1", L=600.0), P("pc", "J0", "J1", L=500.0), P("pd", "J0", "J1", L=800.0)],
                OPTS(dur=DUR, hyd=hyd, rep="ALL", rule=rule, clock=clock))


def ctl(kind, rel, t, value, rule=False, prio=3, els=None, link="pa"):
    d = {"kind": kind, "rel": rel, "t": t, "link": link, "value": value}
    if rule:
        d.update(rule=True, prio=prio)
        if els:
            d["else_value"] = els
    return d


def single_controls():
    out = []
    for t in TIMES:
        for v in ("CLOSED",):
            out.append(ctl("time", "=", t, v))
    for c in CLOCKS:
        out.append(ctl("clock", "=", c, "CLOSED"))
    # API-only variants (no EPANET syntax): a time control repeating every `repeat` seconds, a clock control firing once
    for t in (H, H + 21 * 60 + 40):
        for rp in (2 * H, True):
            out.append(dict(ctl("time", "=", t, "CLOSED"), repeat=rp))
    # first instant at or beyond one period: nothing happens before it
    for t, rp in ((2 * H, 2 * H), (3 * H + 18 * 60, 2 * H), (25 * H, True), (5 * H, H)):
        out.append(dict(ctl("time", "=", t, "CLOSED"), repeat=rp))
    for c in (H, 6 * H + 1800):
        out.append(dict(ctl("clock", "=", c, "CLOSED"), repeat=False))
    for rel in RELS:
        for t in TIMES:
            out.append(ctl("time", rel, t, "CLOSED", rule=True))
            if rel in (">=", "<", "<="):
                out.append(ctl("time", rel, t, "CLOSED", rule=True, els="OPEN"))
        for c in CLOCKS:
            out.append(ctl("clock", rel, c, "CLOSED", rule=True))
            if rel in (">=", "<="):
                out.append(ctl("clock", rel, c, "CLOSED", rule=True, els="OPEN"))
    return out


def en_exact(t):
    """True when EPANET's hh:mm:ss -> float hours -> (long)(3600*h) conversion returns t itself"""
    h, m, sec = t // 3600, (t % 3600) // 60, t % 60
    return int(3600.0 * (h + m / 60.0 + sec / 3600.0)) == t


def canon_ctl(c):
    import json
    return json.dumps(c, sort_keys=True)


def conflict(a, b):
    """two controls of the same kind and priority that can act in opposite ways at one instant: outside the statement"""
    ra, rb = bool(a.get("rule")), bool(b.get("rule"))
    if ra != rb or a["link"] != b["link"]:
        return False
    if a["value"] == b["value"] and a.get("else_value") == b.get("else_value"):
        return False
    if ra:
        return a.get("prio", 3) == b.get("prio", 3)
    if a.get("prio", 3) != b.get("prio", 3):
        return False        # simple controls with different priorities (API only): the higher one decides
    # two simple controls: a conflict only when they can fire at the same instant (for any start_clocktime of the space)
    for start in (0, 3 * H, 22 * H):
        if set(fire_instants(a, start, DUR)) & set(fire_instants(b, start, DUR)):
            return True
    return False


def cases(tier):
    out = []
    singles = single_controls()
    for c in singles:
        for clock, hyd, rule in itertools.product((0, 3 * H, 22 * H), (H, 1800), (360, H)):
            if not c.get("rule") and rule != 360:
                continue
            if rule > hyd:
                continue
            s = base(hyd, rule, clock)
            s["controls"] = [dict(c, name="c0")]
            out.append(s)
    # order of API calls: the same single clock-time controls / rules, but options.time.start_clocktime is assigned AFTER the
    # controls were added to the model (the clock offset belongs to the run, not to the moment a condition was created)
    for c in singles:
        if c["kind"] != "clock" or c.get("repeat") is False:
            continue        # (a fire-once condition stores its first day when it is created: an API detail outside the statement)
        for clock, hyd in itertools.product((3 * H, 22 * H), (H,) if tier == "quick" else (H, 1800)):
            s = base(hyd, 360, clock)
            s["controls"] = [dict(c, name="c0")]
            s["late_clock"] = True
            out.append(s)
    # sets of two: second control opens (or has another priority)
    A = [ctl("time", "=", t, "CLOSED") for t in (H, H + 21 * 60 + 40, 2 * H)] + [ctl("clock", "=", c, "CLOSED") for c in (H, 6 * H + 1800)]
    A += [ctl("time", rel, t, "CLOSED", rule=True, prio=p) for rel in (">=", "<", "=") for t in (H, H + 18 * 60) for p in (1, 5)]
    A += [ctl("clock", rel, c, "CLOSED", rule=True, prio=p) for rel in (">=", "<=") for c in (6 * H + 1800,) for p in (1, 5)]
    A += [dict(ctl("time", "=", H, "CLOSED"), repeat=2 * H), dict(ctl("time", "=", H + 21 * 60 + 40, "CLOSED"), repeat=True)]
    B = [ctl("time", "=", t, "OPEN") for t in (H, 2 * H, 3 * H)] + [dict(ctl("time", "=", 2 * H, "OPEN"), repeat=2 * H)] + [ctl("clock", "=", c, "OPEN") for c in (6 * H + 1800, 23 * H)]
    B += [ctl("time", rel, t, "OPEN", rule=True, prio=3) for rel in (">=", "<", "=") for t in (H, 2 * H)]
    B += [ctl("clock", rel, c, "OPEN", rule=True, prio=3) for rel in (">=", "<") for c in (H, 23 * H)]
    for a, b in itertools.product(A, B):
        if conflict(a, b):
            continue
        for clock in (0, 3 * H):
            s = base(H, 360, clock)
            s["controls"] = [dict(a, name="c0"), dict(b, name="c1")]
            out.append(s)
    # simple controls that fire at the SAME instant on the same target with opposite values and different priorities (the
    # API lets a simple control carry a priority; [CONTROLS] cannot): on the grid, off the grid, sim-time and clock-time mixed
    for t1 in (H, H + 18 * 60, H + 21 * 60 + 40, 2 * H):
        for (pa_, pb_) in ((5, 1), (1, 5), (4, 2), (0, 3)):
            for kinds in (("time", "time"), ("time", "clock"), ("clock", "clock")):
                for clock in (0, 3 * H):
                    for order in (0, 1):
                        s = base(H, 360, clock)
                        a = dict(ctl(kinds[0], "=", t1 if kinds[0] == "time" else (t1 + clock) % DAY, "CLOSED"), prio=pa_)
                        b = dict(ctl(kinds[1], "=", t1 if kinds[1] == "time" else (t1 + clock) % DAY, "OPEN"), prio=pb_)
                        cs = [a, b] if order == 0 else [b, a]
                        if tier == "quick" and (order == 1 and kinds != ("time", "time")):
                            continue
                        s["controls"] = [dict(c, name="c%d" % i) for i, c in enumerate(cs)]
                        out.append(s)
    # several targets: a simple control on pa (closing it, or redundantly opening it), a second simple control on pb at the same
    # instant / later in the same hydraulic step / on the next grid point, with or without a rule on pc that fires at every
    # rule step (ELSE branch) or whose condition is true.  pd is never targeted, so nothing is ever isolated.
    t1s = (H + 18 * 60, H + 21 * 60 + 40, H) if tier == "quick" else (H + 18 * 60, H + 21 * 60 + 40, H, 30 * 60, 2 * H)
    offs = (0, 6 * 60, 15 * 60) if tier == "quick" else (0, 6 * 60, 15 * 60, 100, 30 * 60, H)
    RS = [None, ctl("time", ">=", 20 * H, "CLOSED", rule=True, els="OPEN", link="pc"), ctl("time", "<", 20 * H, "OPEN", rule=True, link="pc")]
    if tier == "thorough":
        RS += [ctl("clock", ">=", 23 * H, "CLOSED", rule=True, els="OPEN", link="pc"), ctl("time", "<=", 2 * H, "CLOSED", rule=True, prio=5, els="OPEN", link="pc")]
    for t1 in t1s:
        for xv in ("CLOSED", "OPEN"):
            for off in offs:
                for ykind in (("time",) if tier == "quick" else ("time", "clock")):
                    if not en_exact(t1 + off) or (ykind == "clock" and (t1 + off) % 900):
                        continue        # EPANET stores times as float hours and truncates: such an instant lands 1 s early there (the reference is validated against EPANET, so these are left out)
                    for r in RS:
                        for clock in ((0, 3 * H) if tier == "quick" else (0, 3 * H, 22 * H)):
                            for hyd in ((H,) if tier == "quick" else (H, 1800)):
                                s = base(hyd, 360, clock)
                                x = ctl("time", "=", t1, xv, link="pa")
                                ty = t1 + off if ykind == "time" else (t1 + off + clock) % DAY
                                y = ctl(ykind, "=", ty, "CLOSED", link="pb")
                                s["controls"] = [dict(c, name="c%d" % i) for i, c in enumerate([x, y] + ([r] if r else []))]
                                if r and r["link"] == "pa" and conflict(x, r):
                                    continue
                                out.append(s)
    if tier == "thorough":
        # every CLOSED control x every OPEN control (rules of the OPEN family get priority 5 resp. 1, so that priorities differ)
        Sc = single_controls()
        seen2 = set()
        for a in Sc:
            for b0 in Sc:
                for pr in ((5, 1) if b0.get("rule") else (3,)):
                    b = dict(b0, value="OPEN")
                    if "else_value" in b:
                        b["else_value"] = "CLOSED"
                    if b.get("rule"):
                        b["prio"] = pr
                    if conflict(a, b):
                        continue
                    k = (canon_ctl(a), canon_ctl(b))
                    if k in seen2:
                        continue
                    seen2.add(k)
                    for clock in (0, 3 * H):
                        s = base(H, 360, clock)
                        s["controls"] = [dict(a, name="c0"), dict(b, name="c1")]
                        out.append(s)
        A3 = [ctl("time", "=", H, "CLOSED"), ctl("clock", "=", 6 * H + 1800, "CLOSED"), ctl("time", ">=", H + 18 * 60, "CLOSED", rule=True, prio=1),
              ctl("time", "<", 2 * H, "CLOSED", rule=True, prio=5), ctl("clock", ">=", 6 * H + 1800, "CLOSED", rule=True, prio=1)]
        B3 = [ctl("time", "=", 2 * H, "OPEN"), ctl("clock", "=", 23 * H, "OPEN"), ctl("time", ">=", 2 * H, "OPEN", rule=True, prio=3),
              ctl("clock", "<", H, "OPEN", rule=True, prio=3)]
        C3 = [ctl("time", "=", 3 * H, "CLOSED"), ctl("time", "=", 25 * H, "CLOSED"), ctl("time", ">", 4 * H, "CLOSED", rule=True, prio=4),
              ctl("clock", "=", H, "CLOSED", rule=True, prio=2)]
        for a, b, c in itertools.product(A3, B3, C3):
            if conflict(a, b) or conflict(b, c) or conflict(a, c):
                continue
            for clock in (0, 3 * H):
                s = base(H, 360, clock)
                s["controls"] = [dict(a, name="c0"), dict(b, name="c1"), dict(c, name="c2")]
                out.append(s)
    # the same instants written in an INP file in every notation EPANET accepts (H:MM:SS, H:MM, decimal hours; clock times with
    # AM/PM, in 24-hour form with and without seconds, decimal) and READ by WNTR's INP reader: quarter-hour instants (exact in
    # EPANET's float hours), noon and midnight hours included
    for nt in ("default", "hm", "24h", "24hs", "dec"):
        cs = [ctl("time", "=", t, "CLOSED") for t in (H, H + 900, 2 * H, 25 * H)]
        cs += [ctl("clock", "=", c, "CLOSED") for c in (0, 1800, H, 6 * H + 1800, 12 * H, 12 * H + 1800, 13 * H + 900, 23 * H + 1800)]
        cs += [ctl("time", rel, t, "CLOSED", rule=True, els=("OPEN" if rel != "=" else None)) for rel in ("=", ">=", "<") for t in (H, 2 * H + 900)]
        cs += [ctl("clock", rel, c, "CLOSED", rule=True, els=("OPEN" if rel != "=" else None)) for rel in ("=", ">=", "<") for c in (1800, 12 * H + 1800, 13 * H + 900)]
        for c in cs:
            if nt in ("24h", "24hs") and c["kind"] == "time":
                continue
            for clock in (0, 3 * H, 22 * H):
                s = base(H, 900, clock)
                s["controls"] = [dict(c, name="c0")]
                s["inp_read"] = nt
                out.append(s)
    # simple controls on a clock-time RANGE (before c closes, from c on opens), in models whose start_clocktime is not a multiple
    # of the hydraulic step, so that midnight falls between two grid points
    for cth in (6 * H, 23 * H + 1800, 1800):
        for clock in (1200, 3 * H + 1200, 22 * H + 2400, 0):
            for order in (0, 1):
                s = base(H, 360, clock)
                s["opts"]["dur"] = 30 * H
                cs = [dict(ctl("clock", "<", cth, "CLOSED"), name="c0"), dict(ctl("clock", ">=", cth, "OPEN"), name="c1")]
                s["controls"] = cs if order == 0 else cs[::-1]
                out.append(s)
    # two rules on pa that become true at the same rule step inside a hydraulic interval, with opposite actions and different
    # priorities, in both registration orders, while a simple control on ANOTHER link is still pending later in that interval
    for t1, off in ((H + 900, 35 * 60), (H + 1800, 1800), (2 * H + 900, 900)):
        for pr in ((5, 1), (1, 5), (4, 3)):
            for order in (0, 1):
                for pend in (None, "time", "clock"):
                    s = base(H, 900, 3 * H)
                    hi = ctl("time", ">=", t1, "CLOSED", rule=True, prio=pr[0])
                    lo = ctl("time", ">=", t1, "OPEN", rule=True, prio=pr[1])
                    cs = [hi, lo] if order == 0 else [lo, hi]
                    if pend == "time":
                        cs.append(ctl("time", "=", t1 + off, "CLOSED", link="pb"))
                    elif pend == "clock":
                        cs.append(ctl("clock", "=", (t1 + off + 3 * H) % DAY, "CLOSED", link="pb"))
                    s["controls"] = [dict(c, name="c%d" % i) for i, c in enumerate(cs)]
                    out.append(s)
    # paused and continued runs: single rules / controls whose instant falls in the hydraulic interval right after the pause
    for pause in (H, 2 * H, 3 * H):
        cs = [ctl("time", "=", pause + 18 * 60, "CLOSED"), ctl("clock", "=", (pause + 18 * 60 + 3 * H) % DAY, "CLOSED")]
        cs += [ctl("time", rel, pause + 18 * 60, "CLOSED", rule=True, els=("OPEN" if rel != "=" else None)) for rel in ("=", ">=", ">")]
        cs += [ctl("clock", rel, (pause + 18 * 60 + 3 * H) % DAY, "CLOSED", rule=True) for rel in ("=", ">=")]
        cs += [ctl("time", "<", pause + 18 * 60, "CLOSED", rule=True, els="OPEN")]
        for c in cs:
            s = base(H, 360, 3 * H)
            s["opts"]["dur"] = 8 * H
            s["controls"] = [dict(c, name="c0")]
            s["pause"] = pause
            out.append(s)
    # several days: daily clock-time controls / rules must act on EVERY day of a 99-hour run (close at c1, reopen at c2)
    for c1, c2 in ((6 * H + 900, 18 * H), (23 * H + 1800, 2 * H), (H, 13 * H + 900)):
        for rule_ in (False, True):
            for clock in (0, 8 * H, 22 * H):
                s = base(H, 900, clock)
                s["opts"]["dur"] = 99 * H
                s["controls"] = [dict(ctl("clock", "=", c1, "CLOSED", rule=rule_), name="c0"), dict(ctl("clock", "=", c2, "OPEN", rule=rule_), name="c1")]
                s["days"] = 4
                out.append(s)
    # EPANET also evaluates rules at the end of a hydraulic step that a simple control cut short; a rule on an instant
    # ('=') then sees another interval than on the rule grid alone.  Outside the statement: kept out of the space.
    def epanet_extra_instant(s):
        rs = s["opts"]["rule"]
        off = any((not c.get("rule")) and c["kind"] == "time" and c["t"] % rs for c in s["controls"])
        off = off or any((not c.get("rule")) and c["kind"] == "clock" and ((c["t"] - s["opts"]["clock"]) % DAY) % rs for c in s["controls"])
        if off and any(c.get("rule") and c["rel"] == "=" for c in s["controls"]):
            return True
        # the same extra evaluation changes the outcome of a range rule whose bound lies between the last rule-grid instant
        # and the off-grid instant of a simple control
        start = s["opts"]["clock"]
        for c in s["controls"]:
            if c.get("rule"):
                continue
            for tau in fire_instants(c, start, DUR):
                if tau % rs == 0:
                    continue
                g = tau - tau % rs
                for r in s["controls"]:
                    if r.get("rule") and r["rel"] != "=" and g > 0 and rule_true(r, tau, g, start) != rule_true(r, g, g - rs, start):
                        return True
        return False
    out = [s for s in out if not epanet_extra_instant(s)]
    for s in out:
        s["id"] = {"controls": s["controls"], "clock": s["opts"]["clock"], "hyd": s["opts"]["hyd"], "rule": s["opts"]["rule"], "late_clock": bool(s.get("late_clock"))}
        if s.get("pause") is not None:
            s["id"]["pause"] = s["pause"]
        if s.get("inp_read"):
            s["id"]["inp_read"] = s["inp_read"]
    return out


# ------------------------------------------------------------------------------------------------ reference timeline
def rule_true(c, tau, prev, start):
    """condition of a rule at rule instant tau (previous rule instant prev)"""
    rel, t = c["rel"], c["t"]
    if c["kind"] == "time":
        x = tau
        if rel == "=":
            return prev < t <= tau
    else:
        x = (tau + start) % DAY
        if rel == "=":
            # the clock passed t since the previous rule instant (with wrap at midnight)
            px = (prev + start) % DAY
            if tau - prev >= DAY:
                return True
            if px < x:
                return px < t <= x
            return t > px or t <= x
    return {">": x > t, ">=": x >= t, "<": x < t, "<=": x <= t}[rel]


def fire_instants(c, start, dur):
    """instants at which a simple time / clock-time control fires"""
    out = []
    if c["kind"] == "time":
        rp = c.get("repeat", False)
        rp = DAY if rp is True else rp
        tau = c["t"]
        while tau <= dur:
            out.append(tau)
            if not rp:
                break
            tau += rp
    elif c.get("rel", "=") != "=":
        # a simple control on a RANGE of the day (API only): it acts when the range opens - at midnight for before / <=, at the
        # threshold for after / >= - and at t = 0 when the run starts inside the range
        tod0 = start % DAY
        if {"<": tod0 < c["t"], "<=": tod0 <= c["t"], ">": tod0 > c["t"], ">=": tod0 >= c["t"]}[c["rel"]]:
            out.append(0)
        edge = 0 if c["rel"] in ("<", "<=") else c["t"]
        tau = (edge - start) % DAY
        while tau <= dur:
            if tau > 0:
                out.append(tau)
            tau += DAY
    else:
        tau = (c["t"] - start) % DAY
        while tau <= dur:
            out.append(tau)
            if c.get("repeat", True) is False:
                break
            tau += DAY
    return out


def timeline(s, link="pa"):
    """returns the list of (instant, new status) of one target link: rules act on the rule grid (whenever the model has any
    rule), simple controls at their own instants; controls on other links do not matter for this link"""
    o = s["opts"]
    start, rs, dur = o["clock"], o["rule"], o["dur"]
    simple = [c for c in s["controls"] if not c.get("rule") and c["link"] == link]
    rules = [c for c in s["controls"] if c.get("rule") and c["link"] == link]
    inst = set()
    for c in simple:
        for tau in fire_instants(c, start, dur):
            inst.add(tau)
    if rules:
        inst.update(range(rs, dur + 1, rs))
    status = "OPEN"
    changes = []            # (tau, new status)
    for tau in sorted(inst):
        new = status
        if rules and tau % rs == 0 and tau > 0:
            acts = []
            for i, c in enumerate(rules):
                if rule_true(c, tau, tau - rs, start):
                    acts.append((c.get("prio", 3), i, c["value"]))
                elif "else_value" in c:
                    acts.append((c.get("prio", 3), i, c["else_value"]))
            for _, _, v in sorted(acts):        # lowest priority first: the highest priority determines the outcome
                new = v
        for c in sorted((c for c in simple if tau in fire_instants(c, start, dur)), key=lambda c: c.get("prio", 3)):
            new = c["value"]        # lowest priority first: the highest priority determines the outcome
        if new != status:
            changes.append((tau, new))
            status = new
    return changes


def status_at(changes, tau):
    st = "OPEN"
    for t, v in changes:
        if t <= tau:
            st = v
    return st


# ------------------------------------------------------------------------------------------------ EPANET text
def fmt_time(t, nt):
    if nt in ("hm", "24h"):
        return "%d:%02d" % (t // 3600, (t % 3600) // 60)
    if nt == "dec":
        return "%.10g" % (t / 3600.0)
    return EN.hms(t)


def fmt_clock(t, nt):
    t = t % DAY
    if nt == "24h":
        return "%d:%02d" % (t // 3600, (t % 3600) // 60)
    if nt == "24hs":
        return EN.hms(t)
    if nt == "dec":
        return "%.10g" % (t / 3600.0)
    if nt == "hm":
        x = EN.clock(t)                      # H:MM:SS AM -> H:MM AM
        return x[:x.rindex(":")] + x[-3:]
    return EN.clock(t)


def en_texts(s):
    nt = s.get("inp_read")
    if nt and nt != "default":
        class _E(object):
            hms = staticmethod(lambda t: fmt_time(t, nt))
            clock = staticmethod(lambda t: fmt_clock(t, nt))
        return _en_texts(s, _E)
    return _en_texts(s, EN)


def _en_texts(s, EN):
    ctr, rul = [], []
    for i, c in enumerate(s["controls"]):
        if not c.get("rule"):
            if c["kind"] == "time":
                ctr.append(" LINK %s %s AT TIME %s" % (c["link"], c["value"], EN.hms(c["t"])))
            else:
                ctr.append(" LINK %s %s AT CLOCKTIME %s" % (c["link"], c["value"], EN.clock(c["t"])))
        else:
            what = "TIME %s %s" % (c["rel"], EN.hms(c["t"])) if c["kind"] == "time" else "CLOCKTIME %s %s" % (c["rel"], EN.clock(c["t"]))
            rul.append("RULE r%d\nIF SYSTEM %s\nTHEN PIPE %s STATUS IS %s" % (i, what, c["link"], c["value"]))
            if "else_value" in c:
                rul.append("ELSE PIPE %s STATUS IS %s" % (c["link"], c["else_value"]))
            rul.append("PRIORITY %d\n" % c.get("prio", 3))
    return "\n".join(ctr), "\n".join(rul)


def run_case(s):
    viol, counts = [], {}
    targets = sorted(set(c["link"] for c in s["controls"]))
    changes = {l: timeline(s, l) for l in targets}
    all_changes = sorted(set(t for l in targets for t, _ in changes[l]))
    # ---- reference vs EPANET (validates the reference; EPANET visits its own set of instants)
    api_only = any("repeat" in c or (not c.get("rule") and ("prio" in c or c.get("rel", "=") != "=")) for c in s["controls"])
    if api_only:
        counts["api_only_no_epanet_syntax"] = 1
        en, en_times = [], list(all_changes)
    else:
        ct, rt = en_texts(s)
        en = EN.run_hydraulics(EN.inp_lps(s, ct, rt), links=targets)
        counts["epanet_instants"] = len(en)
        en_times = [t for t, _, _, _ in en]
    for t, code, lv, _ in en:
        for l in targets:
            est = "OPEN" if lv[l][0] >= 1 else "CLOSED"
            if est != status_at(changes[l], t):
                return {"viol": [], "harness": "reference timeline says %s is %s at t=%d, EPANET reports %s (controls %s, clock %d, hyd %d, rule %d)" % (
                    l, status_at(changes[l], t), t, est, s["controls"], s["opts"]["clock"], s["opts"]["hyd"], s["opts"]["rule"]), "counts": counts}
    for t in all_changes:
        if t not in en_times:
            return {"viol": [], "harness": "reference timeline changes at t=%d, which EPANET does not visit (%s)" % (t, s["controls"]), "counts": counts}
    # ---- WNTR
    if s.get("inp_read"):
        import wntr, os, tempfile
        fd, pth = tempfile.mkstemp(suffix=".inp", dir=".")
        with os.fdopen(fd, "w") as f:
            f.write(EN.inp_lps(s, ct, rt))
        try:
            wn = wntr.network.WaterNetworkModel(pth)
        finally:
            os.unlink(pth)
        wn.options.time.report_timestep = "ALL"
        r = simulate(s, wn=wn)
    elif s.get("pause") is not None:
        # the run is paused at a hydraulic grid point and continued with a new simulator: the controls and rules still act at
        # their configured instants (rule steps between the pause and the next hydraulic step included)
        import wntr, warnings, numpy as np
        wn = build(s)
        parts = []
        for stop in (s["pause"], s["opts"]["dur"]):
            wn.options.time.duration = stop
            with warnings.catch_warnings():
                warnings.simplefilter("ignore")
                parts.append(wrap(wntr.sim.WNTRSimulator(wn).run_sim(), wn))
        r = parts[1]
        r.error = parts[0].error or parts[1].error
        r.warnings = parts[0].warnings + parts[1].warnings
        r.times = parts[0].times + parts[1].times
        r.link = {"status": {l: np.concatenate([parts[0].link["status"][l], parts[1].link["status"][l]]) for l in parts[0].link["status"]}}
    elif s.get("late_clock"):
        s0 = clone(s)
        s0["opts"]["clock"] = 0
        wn = build(s0)
        wn.options.time.start_clocktime = s["opts"]["clock"]
        r = simulate(s, wn=wn)
    else:
        r = simulate(s)
    if r.error:
        viol.append({"key": "run-fails", "what": "WNTRSimulator did not complete: %s" % r.warnings[:1]})
        return {"viol": viol, "counts": counts}
    kinds = "+".join(sorted(set(("rule-" if c.get("rule") else "simple-") + c["kind"] + ("-repeat" if c.get("repeat") not in (None, False) and c["kind"] == "time" else "") + ("-once" if c.get("repeat") is False else "") + ("" if not c.get("rule") and c.get("rel", "=") == "=" else ":" + c["rel"]) for c in s["controls"])))
    if len(targets) > 1:
        kinds = "multi-target:" + kinds
    if s.get("late_clock"):
        kinds = "start_clocktime-set-after-controls:" + kinds
    if s.get("inp_read"):
        kinds = "read-from-inp:%s:" % s["inp_read"] + kinds
    if s.get("days"):
        kinds = "99h-run:" + kinds
    if s.get("pause") is not None:
        kinds = "paused-run:" + kinds
    counts["solved_instants"] = len(r.times)
    for l in targets:
        st = r.link["status"][l]
        for t, v in changes[l]:
            if t not in r.times:
                # a daily RANGE of a simple control that opens and shuts again between two consecutive hydraulic grid points is
                # its own, narrow class (the condition is only looked at where a step ends)
                hyd_ = s["opts"]["hyd"]
                inside = False
                for c in s["controls"]:
                    if c["link"] == l and not c.get("rule") and c["kind"] == "clock" and c.get("rel", "=") != "=" and t in fire_instants(c, s["opts"]["clock"], s["opts"]["dur"]):
                        shut = t + (c["t"] if c["rel"] in ("<", "<=") else DAY - c["t"])
                        inside = inside or shut <= (t // hyd_ + 1) * hyd_
                if inside:
                    viol.append({"key": "instant-not-solved:range-inside-one-hydraulic-step:%s" % kinds, "what": "%s changes to %s at t=%d (%s): the clock-time range of a simple control opens there and shuts again before the next hydraulic grid point, and no step is solved inside it; controls %s, start_clocktime %d" % (l, v, t, EN.hms(t), [_short(c) for c in s["controls"]], s["opts"]["clock"])})
                    break
                viol.append({"key": "instant-not-solved:%s" % kinds, "what": "%s changes to %s at t=%d (%s) but that instant is not among the solved steps %s; controls %s, start_clocktime %d" % (l, v, t, EN.hms(t), [x for x in r.times if x < 3 * H], [_short(c) for c in s["controls"]], s["opts"]["clock"])})
                break
        for i, t in enumerate(r.times):
            exp = status_at(changes[l], t)
            got = "OPEN" if st[i] >= 1 else "CLOSED"
            counts["status_checks"] = counts.get("status_checks", 0) + 1
            if got != exp:
                viol.append({"key": "status:%s" % kinds, "what": "at t=%d (%s) %s is reported %s, the controls %s with start_clocktime %d, hyd %d, rule step %d give %s (timeline %s)" % (
                    t, EN.hms(t), l, got, [_short(c) for c in s["controls"]], s["opts"]["clock"], s["opts"]["hyd"], s["opts"]["rule"], exp, changes[l][:6])})
                break
    nt = any(t > 0 for t in all_changes)
    return {"viol": viol[:2], "nontrivial": nt, "outcome": "%s:%d" % (kinds, min(len(all_changes), 3)), "counts": counts}


def _short(c):
    return "%s%s %s %s : %s -> %s%s" % ("rule p%d " % c.get("prio", 3) if c.get("rule") else "", c["kind"], c["rel"], EN.hms(c["t"]), c["link"], c["value"], (" else " + c["else_value"]) if "else_value" in c else "")


def run(run_, tier, seed):
    from .. import pool
    import sys
    specs = cases(tier)
    run_.sample(specs)
    res = pool.run_cases(run_case, specs, seed=seed)
    nh = 0
    for s, r in zip(specs, res):
        run_.add_result(s["id"] if False else s, r)
        if r.get("harness"):
            nh += 1
            if nh <= 5:
                sys.stderr.write("HARNESS-ERROR: %s\n" % r["harness"])
    if nh:
        run_.extra["harness_error"] = "%d case(s): reference timeline disagrees with EPANET" % nh
    run_.count("reference_validated_against_epanet", len(specs) - nh)
    from ..main import recheck
    recheck(sys.modules[__name__], run_, specs, res, seed)
