"""C14 - all views of the model stay mutually consistent under any edit history (explicit-state BFS over histories)."""
import json

ID = "C14"
LEVEL = "model_checking"
RULE = ("explicit-state BFS over well-formed edit histories of a real WaterNetworkModel: names nodes {A,B,C}, links {p,q}, "
        "pattern P, curves H,G (HEAD) and V (VOLUME), source s, control c; operations add_junction/tank/reservoir/pipe/"
        "pump(HEAD|POWER, speed pattern)/valve(TCV|PRV)/pattern/curve/source/control, remove_node/link (with and without "
        "with_control)/pattern/curve/source/control, reassignment of start/end node, speed pattern, pump curve, volume curve, "
        "head pattern, add_demand; controls are simple controls (time or node pressure) and rules whose compound AND/OR condition reads the node in its last / first clause; start states: empty model, 'pumpnet' (3 nodes, pattern-using pump + pipe), 'roles' (untyped curve used as pump curve), 'lonely' (node without links but with a source and a control) and 'rich' "
        "(tank with volume curve, reservoir with head pattern, source, control).  Enabledness and the expected outcome "
        "(succeed / refuse) come from a plain-dict reference; the invariant compares every public view with it in every "
        "state.  A state is distinct by the canonical form of all observable views; non-trivial transition = a removal or "
        "reassignment (accepted or refused)")
ASSUMPTIONS = ["ill-formed calls (duplicate names, references to missing elements) are disabled, not explored: the property speaks of operations on the model, not of argument validation",
               "canonical state = every public view (sorted) + link end-node identity; two histories with equal canonical states are assumed to have equal futures",
               "options.hydraulic.pattern (default pattern) is left unset"]

NODES = ["A", "B", "C"]
LINKS = ["p", "q"]
HEADC = ["H", "G", "U", "V"]      # curves a head pump may be switched to: two HEAD curves, an untyped one, a VOLUME one
PAIRS = [("A", "B"), ("B", "A"), ("A", "C"), ("B", "C"), ("C", "B")]


# ------------------------------------------------------------------------------------------------ reference
class Ref(object):
    def __init__(self):
        self.nodes = {}      # name -> {"t": junc|tank|res, "pats": [..], "vc": name|None, "hp": name|None}
        self.links = {}      # name -> {"t": pipe|hpump|ppump|TCV|PRV, "a":, "b":, "sp": pat|None, "cv": curve|None}
        self.pats = set()
        self.curves = {}     # name -> declared type (None = untyped)
        self.croles = {}     # name -> typed sets the curve is filed under (declared type + every role it was ever used in)
        self.sources = {}    # name -> (node, pat)
        self.controls = {}   # name -> (link, node|None)

    # -- usage edges
    def node_users(self, n):
        u = set(("link", l) for l, d in self.links.items() if n in (d["a"], d["b"]))
        u |= set(("source", s) for s, (nn, _) in self.sources.items() if nn == n)
        return u

    def pat_users(self, p):
        u = set(("node", n) for n, d in self.nodes.items() if p in d["pats"] or d["hp"] == p)
        u |= set(("link", l) for l, d in self.links.items() if d.get("sp") == p)
        u |= set(("source", s) for s, (_, pp) in self.sources.items() if pp == p)
        return u

    def curve_users(self, c):
        u = set(("node", n) for n, d in self.nodes.items() if d["vc"] == c)
        u |= set(("link", l) for l, d in self.links.items() if d.get("cv") == c)
        return u

    def controls_requiring(self, kind, name):
        return [c for c, (l, n) in self.controls.items() if (kind == "link" and l == name) or (kind == "node" and n == name)]

    # -- enabled operations in this state
    def enabled(self):
        ops = []
        P = "P" in self.pats
        for n in NODES:
            if n not in self.nodes:
                ops.append(["add_junction", n, None])
                if P:
                    ops.append(["add_junction", n, "P"])
                ops.append(["add_tank", n, None])
                if self.curves.get("V") == "VOLUME":
                    ops.append(["add_tank", n, "V"])
                ops.append(["add_reservoir", n, None])
                if P:
                    ops.append(["add_reservoir", n, "P"])
            else:
                ops.append(["remove_node", n, False])
                if self.controls_requiring("node", n):
                    ops.append(["remove_node", n, True])
                d = self.nodes[n]
                if d["t"] == "junc" and P and "P" not in d["pats"]:
                    ops.append(["add_demand", n, "P"])
                if d["t"] == "tank":
                    if d["vc"] is None and self.curves.get("V") == "VOLUME":
                        ops.append(["set_vol_curve", n, "V"])
                    if d["vc"] is not None:
                        ops.append(["set_vol_curve", n, None])
                if d["t"] == "res":
                    if d["hp"] is None and P:
                        ops.append(["set_head_pattern", n, "P"])
                    if d["hp"] is not None:
                        ops.append(["set_head_pattern", n, None])
        for l in LINKS:
            if l not in self.links:
                for a, b in PAIRS:
                    if a in self.nodes and b in self.nodes:
                        ops.append(["add_pipe", l, a, b])
                        if (a, b) in PAIRS[:3]:
                            if "H" in self.curves:
                                ops.append(["add_hpump", l, a, b, "H", None])
                                if P:
                                    ops.append(["add_hpump", l, a, b, "H", "P"])
                            if "U" in self.curves:
                                ops.append(["add_hpump", l, a, b, "U", None])
                            ops.append(["add_ppump", l, a, b, None])
                            if P:
                                ops.append(["add_ppump", l, a, b, "P"])
                            ops.append(["add_valve", l, a, b, "TCV"])
                            # a PRV next to a tank / reservoir is refused by a documented rule: a refusal must leave no trace
                            ops.append(["add_valve", l, a, b, "PRV"])
            else:
                d = self.links[l]
                ops.append(["remove_link", l, False])
                if self.controls_requiring("link", l):
                    ops.append(["remove_link", l, True])
                for n in self.nodes:
                    if d["t"] == "PRV" and self.nodes[n]["t"] != "junc":
                        continue
                    # every target is legal: another node, the node the end already has (a no-op edit) and the other
                    # end (the transient self-loop of a reversal done through the two setters, as morph.reverse_link does)
                    ops.append(["set_start", l, n])
                    ops.append(["set_end", l, n])
                if d["t"] in ("hpump", "ppump"):
                    if d["sp"] is None and P:
                        ops.append(["set_speed_pattern", l, "P"])
                    if d["sp"] is not None:
                        ops.append(["set_speed_pattern", l, None])
                if d["t"] == "hpump":
                    for c in HEADC:
                        if c in self.curves and c != d["cv"]:
                            ops.append(["set_pump_curve", l, c])
        if "P" not in self.pats:
            ops.append(["add_pattern", "P"])
        else:
            ops.append(["remove_pattern", "P"])
        for c, t in (("H", "HEAD"), ("G", "HEAD"), ("V", "VOLUME"), ("U", None)):
            if c not in self.curves:
                if c != "G" or "H" in self.curves:     # G only as a second head curve
                    ops.append(["add_curve", c, t])
            else:
                ops.append(["remove_curve", c])
        if "s" not in self.sources:
            for n in self.nodes:
                ops.append(["add_source", "s", n, None])
                if P:
                    ops.append(["add_source", "s", n, "P"])
        else:
            ops.append(["remove_source", "s"])
        if "c" not in self.controls:
            for l in self.links:
                ops.append(["add_control", "c", l, None])
                for n in self.nodes:
                    if self.nodes[n]["t"] != "res":
                        ops.append(["add_control", "c", l, n])
                        # rules with a compound condition: the node is read by the LAST clause (and2) / the FIRST clause (or1)
                        ops.append(["add_control", "c", l, n, "and2"])
                        ops.append(["add_control", "c", l, n, "or1"])
        else:
            ops.append(["remove_control", "c"])
        return ops

    # -- apply: returns "ok" or "refuse" (the expected outcome) and updates the reference when ok
    def apply(self, op):
        k = op[0]
        if k == "add_junction":
            self.nodes[op[1]] = {"t": "junc", "pats": [op[2]] if op[2] else [], "vc": None, "hp": None}
        elif k == "add_tank":
            self.nodes[op[1]] = {"t": "tank", "pats": [], "vc": op[2], "hp": None}
        elif k == "add_reservoir":
            self.nodes[op[1]] = {"t": "res", "pats": [], "vc": None, "hp": op[2]}
        elif k == "add_pipe":
            self.links[op[1]] = {"t": "pipe", "a": op[2], "b": op[3], "sp": None, "cv": None}
        elif k == "add_hpump":
            self.links[op[1]] = {"t": "hpump", "a": op[2], "b": op[3], "cv": op[4], "sp": op[5]}
            self.croles[op[4]].add("HEAD")
        elif k == "add_ppump":
            self.links[op[1]] = {"t": "ppump", "a": op[2], "b": op[3], "cv": None, "sp": op[4]}
        elif k == "add_valve":
            if op[4] == "PRV" and (self.nodes[op[2]]["t"] != "junc" or self.nodes[op[3]]["t"] != "junc"):
                return "refuse"
            self.links[op[1]] = {"t": op[4], "a": op[2], "b": op[3], "sp": None, "cv": None}
        elif k == "add_pattern":
            self.pats.add(op[1])
        elif k == "add_curve":
            self.curves[op[1]] = op[2]
            self.croles[op[1]] = {op[2]} if op[2] else set()
        elif k == "add_source":
            self.sources[op[1]] = (op[2], op[3])
        elif k == "add_control":
            self.controls[op[1]] = (op[2], op[3])
        elif k == "add_demand":
            self.nodes[op[1]]["pats"].append(op[2])
        elif k == "set_vol_curve":
            self.nodes[op[1]]["vc"] = op[2]
        elif k == "set_head_pattern":
            self.nodes[op[1]]["hp"] = op[2]
        elif k == "set_start":
            self.links[op[1]]["a"] = op[2]
        elif k == "set_end":
            self.links[op[1]]["b"] = op[2]
        elif k == "set_speed_pattern":
            self.links[op[1]]["sp"] = op[2]
        elif k == "set_pump_curve":
            self.links[op[1]]["cv"] = op[2]
            self.croles[op[2]].add("HEAD")       # the documented bookkeeping: used as a pump curve => listed as one
        elif k == "remove_node":
            n, wc = op[1], op[2]
            if self.node_users(n):
                return "refuse"
            cs = self.controls_requiring("node", n)
            if cs and not wc:
                return "refuse"
            for c in cs:
                del self.controls[c]
            del self.nodes[n]
        elif k == "remove_link":
            l, wc = op[1], op[2]
            cs = self.controls_requiring("link", l)
            if cs and not wc:
                return "refuse"
            for c in cs:
                del self.controls[c]
            del self.links[l]
        elif k == "remove_pattern":
            if self.pat_users(op[1]):
                return "refuse"
            self.pats.discard(op[1])
        elif k == "remove_curve":
            if self.curve_users(op[1]):
                return "refuse"
            del self.curves[op[1]]
            del self.croles[op[1]]
        elif k == "remove_source":
            del self.sources[op[1]]
        elif k == "remove_control":
            del self.controls[op[1]]
        else:
            raise KeyError(k)
        return "ok"

    # -- expected observation
    def expect(self):
        e = {}
        nt = lambda t: sorted(n for n, d in self.nodes.items() if d["t"] == t)
        lt = lambda *ts: sorted(l for l, d in self.links.items() if d["t"] in ts)
        e["node"] = sorted(self.nodes); e["junction"] = nt("junc"); e["tank"] = nt("tank"); e["reservoir"] = nt("res")
        e["link"] = sorted(self.links); e["pipe"] = lt("pipe"); e["pump"] = lt("hpump", "ppump")
        e["head_pump"] = lt("hpump"); e["power_pump"] = lt("ppump"); e["valve"] = lt("TCV", "PRV")
        e["prv"] = lt("PRV"); e["tcv"] = lt("TCV"); e["psv"] = []; e["pbv"] = []; e["fcv"] = []; e["gpv"] = []
        e["pattern"] = sorted(self.pats); e["curve"] = sorted(self.curves); e["source"] = sorted(self.sources)
        e["control"] = sorted(self.controls)
        e["ends"] = {l: [d["a"], d["b"]] for l, d in self.links.items()}
        e["lfn"] = {}
        for n in self.nodes:
            e["lfn"][n] = {"ALL": sorted(l for l, d in self.links.items() if n in (d["a"], d["b"])),
                           "INLET": sorted(l for l, d in self.links.items() if d["b"] == n),
                           "OUTLET": sorted(l for l, d in self.links.items() if d["a"] == n)}
        e["graph_nodes"] = sorted(self.nodes)
        e["graph_edges"] = sorted([d["a"], d["b"], l] for l, d in self.links.items())
        e["usage_node"] = {n: sorted(u[1] for u in self.node_users(n)) for n in self.nodes if self.node_users(n)}
        e["usage_pattern"] = {p: sorted(u[1] for u in self.pat_users(p)) for p in self.pats if self.pat_users(p)}
        e["usage_curve"] = {c: sorted(u[1] for u in self.curve_users(c)) for c in self.curves if self.curve_users(c)}
        e["typed"] = {"pump": sorted(c for c, r in self.croles.items() if "HEAD" in r),
                      "volume": sorted(c for c, r in self.croles.items() if "VOLUME" in r), "efficiency": [], "headloss": [],
                      "untyped": sorted(c for c, r in self.croles.items() if not r)}
        e["curve_types"] = {"Pump": len(e["typed"]["pump"]), "Volume": len(e["typed"]["volume"]), "Efficiency": 0, "Headloss": 0}
        return e


# ------------------------------------------------------------------------------------------------ real model
def start_model(label):
    import wntr
    wn = wntr.network.WaterNetworkModel()
    ref = Ref()
    pre = []
    if label == "pumpnet":
        pre = [["add_pattern", "P"], ["add_curve", "H", "HEAD"], ["add_reservoir", "A", None], ["add_junction", "B", "P"],
               ["add_junction", "C", None], ["add_hpump", "p", "A", "B", "H", "P"], ["add_pipe", "q", "B", "C"]]
    elif label == "rich":
        pre = [["add_pattern", "P"], ["add_curve", "V", "VOLUME"], ["add_reservoir", "A", "P"], ["add_junction", "B", None],
               ["add_tank", "C", "V"], ["add_ppump", "p", "A", "B", "P"], ["add_pipe", "q", "B", "C"], ["add_source", "s", "B", "P"],
               ["add_control", "c", "q", "C"]]
    elif label == "roles":
        # curves used in a role that differs from their declared type: an untyped curve as pump curve
        pre = [["add_curve", "U", None], ["add_curve", "H", "HEAD"], ["add_reservoir", "A", None], ["add_junction", "B", None],
               ["add_hpump", "p", "A", "B", "U", None]]
    elif label == "lonely":
        # a node without links that still has users: a source injects there and a control watches it
        pre = [["add_pattern", "P"], ["add_reservoir", "A", None], ["add_junction", "B", None], ["add_junction", "C", "P"],
               ["add_pipe", "p", "A", "B"], ["add_source", "s", "C", "P"], ["add_control", "c", "p", "C"]]
    elif label != "empty":
        raise KeyError(label)
    for op in pre:
        do(wn, op)
        ref.apply(op)
    return wn, ref


def do(wn, op):
    """executes one operation through the public API"""
    import wntr
    from wntr.network import controls as C
    k = op[0]
    if k == "add_junction":
        wn.add_junction(op[1], base_demand=0.01, demand_pattern=op[2], elevation=1.0)
    elif k == "add_tank":
        wn.add_tank(op[1], elevation=10.0, init_level=2.0, min_level=0.0, max_level=5.0, diameter=10.0, vol_curve=op[2])
    elif k == "add_reservoir":
        wn.add_reservoir(op[1], base_head=50.0, head_pattern=op[2])
    elif k == "add_pipe":
        wn.add_pipe(op[1], op[2], op[3], length=100.0, diameter=0.3, roughness=100.0)
    elif k == "add_hpump":
        wn.add_pump(op[1], op[2], op[3], "HEAD", op[4], speed=1.0, pattern=op[5])
    elif k == "add_ppump":
        wn.add_pump(op[1], op[2], op[3], "POWER", 50.0, speed=1.0, pattern=op[4])
    elif k == "add_valve":
        wn.add_valve(op[1], op[2], op[3], diameter=0.3, valve_type=op[4], initial_setting=10.0)
    elif k == "add_pattern":
        wn.add_pattern(op[1], [1.0, 2.0])
    elif k == "add_curve":
        wn.add_curve(op[1], op[2], [(0.0, 40.0), (0.05, 30.0), (0.1, 10.0)] if op[2] in ("HEAD", None) else [(0.0, 0.0), (5.0, 500.0)])
    elif k == "add_source":
        wn.add_source(op[1], op[2], "CONCEN", 1.0, op[3])
    elif k == "add_control":
        act = C.ControlAction(wn.get_link(op[2]), "status", wntr.network.LinkStatus.Closed)
        if op[3] is None:
            cond = C.SimTimeCondition(wn, "=", 3600)
        else:
            cond = C.ValueCondition(wn.get_node(op[3]), "pressure", "<", 5.0)
        shape = op[4] if len(op) > 4 else None
        if shape == "and2":
            cond = C.AndCondition(C.SimTimeCondition(wn, ">=", 0), C.OrCondition(C.SimTimeCondition(wn, "=", 7200), cond))
        elif shape == "or1":
            cond = C.OrCondition(C.AndCondition(cond, C.SimTimeCondition(wn, ">=", 0)), C.SimTimeCondition(wn, "=", 7200))
        if shape:
            wn.add_control(op[1], C.Rule(cond, [act]))
        else:
            wn.add_control(op[1], C.Control(cond, act))
    elif k == "add_demand":
        wn.get_node(op[1]).add_demand(0.005, op[2], "cat2")
    elif k == "set_vol_curve":
        wn.get_node(op[1]).vol_curve_name = op[2]
    elif k == "set_head_pattern":
        wn.get_node(op[1]).head_pattern_name = op[2]
    elif k == "set_start":
        wn.get_link(op[1]).start_node = wn.get_node(op[2])
    elif k == "set_end":
        wn.get_link(op[1]).end_node = wn.get_node(op[2])
    elif k == "set_speed_pattern":
        wn.get_link(op[1]).speed_pattern_name = op[2]
    elif k == "set_pump_curve":
        wn.get_link(op[1]).pump_curve_name = op[2]
    elif k == "remove_node":
        wn.remove_node(op[1], with_control=op[2])
    elif k == "remove_link":
        wn.remove_link(op[1], with_control=op[2])
    elif k == "remove_pattern":
        wn.remove_pattern(op[1])
    elif k == "remove_curve":
        wn.remove_curve(op[1])
    elif k == "remove_source":
        wn.remove_source(op[1])
    elif k == "remove_control":
        wn.remove_control(op[1])
    else:
        raise KeyError(k)


def _try(f):
    try:
        return f()
    except Exception as e:  # noqa - a view that raises is itself an observation
        return "RAISES:%s:%s" % (type(e).__name__, str(e)[:60])


def observe(wn):
    """every public view of the model, sorted; a raising view is recorded as such."""
    o = {}
    kinds = ["node", "junction", "tank", "reservoir", "link", "pipe", "pump", "head_pump", "power_pump", "valve", "prv",
             "psv", "pbv", "tcv", "fcv", "gpv", "pattern", "curve", "source", "control"]
    for k in kinds:
        o["names:" + k] = _try(lambda: sorted(getattr(wn, k + "_name_list")))
        o["dup:" + k] = _try(lambda: len(getattr(wn, k + "_name_list")) != len(set(getattr(wn, k + "_name_list"))))
        o["iter:" + k] = _try(lambda: sorted(n for n, _ in getattr(wn, k + "s")()))
        # controls carry no stored name (Control.name is a generated description), every other element does
        o["iterobj:" + k] = True if k == "control" else _try(lambda: all((obj.name == n) for n, obj in getattr(wn, k + "s")()))
    for k in ("nodes", "junctions", "tanks", "reservoirs", "links", "pipes", "pumps", "valves", "patterns", "curves",
              "sources", "controls"):
        o["num:" + k] = _try(lambda: getattr(wn, "num_" + k))
    o["describe"] = _try(lambda: wn.describe(2))
    ends, ident = {}, {}
    names = _try(lambda: list(wn.link_name_list))
    for l in ([] if isinstance(names, str) else names):
        ends[l] = _try(lambda: [wn.get_link(l).start_node_name, wn.get_link(l).end_node_name])
        ident[l] = _try(lambda: bool(wn.get_link(l).start_node is wn.get_node(wn.get_link(l).start_node_name)
                                     and wn.get_link(l).end_node is wn.get_node(wn.get_link(l).end_node_name)))
    o["ends"], o["ident"] = ends, ident
    lfn = {}
    for n in NODES:
        lfn[n] = {f: _try(lambda: sorted(wn.get_links_for_node(n, f))) for f in ("ALL", "INLET", "OUTLET")}
    o["lfn"] = lfn
    def graph():
        g = wn.to_graph()
        return [sorted(g.nodes()), sorted([u, v, k] for u, v, k in g.edges(keys=True))]
    o["graph"] = _try(graph)
    for rn, reg in (("node", "_node_reg"), ("pattern", "_pattern_reg"), ("curve", "_curve_reg"), ("link", "_link_reg")):
        r = getattr(wn, reg)
        o["usage:" + rn] = _try(lambda: {str(k): sorted([str(u[0]), str(u[1])] for u in v) for k, v in r.usage() if len(v) > 0})
        o["orphaned:" + rn] = _try(lambda: sorted(str(x) for x in r.orphaned()))
        o["unused:" + rn] = _try(lambda: sorted(str(x) for x in r.unused()))
    for k in ("pump", "efficiency", "headloss", "volume", "untyped"):
        o["typed:" + k] = _try(lambda: sorted(getattr(wn.curves, k + "_curve_names")))
        o["typediter:" + k] = _try(lambda: sorted(n for n, c in getattr(wn.curves, k + "_curves")() if c.name == n))
    # not compared with the reference, but part of the state: a rule with a compound condition has other futures than a simple control
    o["shape:control"] = _try(lambda: sorted("%s %s" % (type(c).__name__, c) for _, c in wn.controls()))
    o["todict"] = _try(lambda: json.dumps(wn.to_dict(), sort_keys=True, default=str)[:0] or "ok")
    return o


def compare(o, ref):
    """violations of the invariant: real views vs the reference."""
    e = ref.expect()
    v = []

    def bad(key, what):
        v.append({"key": key, "what": what})
    for k in ("node", "junction", "tank", "reservoir", "link", "pipe", "pump", "head_pump", "power_pump", "valve", "prv",
              "psv", "pbv", "tcv", "fcv", "gpv", "pattern", "curve", "source", "control"):
        if o["names:" + k] != e[k]:
            bad("view:%s_name_list" % k, "%s_name_list is %s, existing elements %s" % (k, o["names:" + k], e[k]))
        if o["dup:" + k] is not False:
            bad("view:%s_name_list" % k, "%s_name_list has duplicates / raises: %s" % (k, o["dup:" + k]))
        if o["iter:" + k] != e[k]:
            bad("iter:%ss" % k, "wn.%ss() yields %s, existing elements %s" % (k, o["iter:" + k], e[k]))
        if o["iterobj:" + k] is not True:
            bad("iter:%ss" % k, "wn.%ss() yields objects whose name differs from their key: %s" % (k, o["iterobj:" + k]))
    num = {"nodes": "node", "junctions": "junction", "tanks": "tank", "reservoirs": "reservoir", "links": "link", "pipes": "pipe",
           "pumps": "pump", "valves": "valve", "patterns": "pattern", "curves": "curve", "sources": "source", "controls": "control"}
    for k, kk in num.items():
        if o["num:" + k] != len(e[kk]):
            bad("num:%s" % k, "num_%s is %s, %d exist" % (k, o["num:" + k], len(e[kk])))
    d = o["describe"]
    exp_d = {"Nodes": {"Junctions": len(e["junction"]), "Tanks": len(e["tank"]), "Reservoirs": len(e["reservoir"])},
             "Links": {"Pipes": len(e["pipe"]), "Pumps": {"Head": len(e["head_pump"]), "Power": len(e["power_pump"])},
                       "Valves": {"PRV": len(e["prv"]), "PSV": 0, "PBV": 0, "TCV": len(e["tcv"]), "FCV": 0, "GPV": 0}},
             "Patterns": len(e["pattern"]), "Curves": e["curve_types"], "Sources": len(e["source"]), "Controls": len(e["control"])}
    if d != exp_d:
        bad("describe", "describe(2) is %s, expected %s" % (d, exp_d))
    if o["ends"] != e["ends"]:
        bad("ends", "link end nodes are %s, expected %s" % (o["ends"], e["ends"]))
    for l, ok in o["ident"].items():
        if ok is not True:
            bad("ends:identity", "link %s holds a node object that is not the registered node of that name (%s)" % (l, ok))
    for n in NODES:
        exp = e["lfn"].get(n, {"ALL": [], "INLET": [], "OUTLET": []})
        if o["lfn"][n] != exp:
            bad("links_for_node", "get_links_for_node(%s) is %s, expected %s" % (n, o["lfn"][n], exp))
    if o["graph"] != [e["graph_nodes"], e["graph_edges"]]:
        bad("graph", "to_graph() is %s, expected %s" % (o["graph"], [e["graph_nodes"], e["graph_edges"]]))
    for rn in ("node", "pattern", "curve"):
        got = o["usage:" + rn]
        if isinstance(got, str):
            bad("usage:%s" % rn, "usage() raises %s" % got)
            continue
        gotn = {k: sorted(u[0] for u in us) for k, us in got.items()}
        if gotn != e["usage_" + rn]:
            bad("usage:%s" % rn, "%s usage records are %s, the elements' own attributes say %s" % (rn, gotn, e["usage_" + rn]))
        if o["orphaned:" + rn] != []:
            bad("orphaned:%s" % rn, "%s registry reports orphaned usages %s" % (rn, o["orphaned:" + rn]))
        exp_unused = sorted(set(e[rn]) - set(e["usage_" + rn]))
        if o["unused:" + rn] != exp_unused:
            bad("unused:%s" % rn, "%s registry unused() is %s, expected %s" % (rn, o["unused:" + rn], exp_unused))
    for k in ("pump", "efficiency", "headloss", "volume", "untyped"):
        if o["typed:" + k] != e["typed"][k] or o["typediter:" + k] != e["typed"][k]:
            bad("typed-curves:%s" % k, "wn.curves.%s_curve_names is %s and %s_curves() yields %s, expected %s" % (
                k, o["typed:" + k], k, o["typediter:" + k], e["typed"][k]))
    if o["todict"] != "ok":
        bad("to_dict", "to_dict() raises %s" % o["todict"])
    return v


def canon(o):
    return json.dumps(o, sort_keys=True, default=str)


def replay_ops(label, ops):
    wn, ref = start_model(label)
    for op in ops:
        do(wn, op)
        ref.apply(op)
    return wn, ref


def step(label, ops, op):
    """replays ops on a fresh model, applies op, returns (key, violations, outcome)."""
    wn, ref = replay_ops(label, ops)
    before = canon(observe(wn))
    expected = ref.apply(op)
    viol = []
    try:
        do(wn, op)
        got = "ok"
    except RuntimeError as e:
        got = "refuse"
        msg = str(e)
    except Exception as e:  # noqa
        got = "crash:%s" % type(e).__name__
        msg = str(e)
    kind = op[0]
    if got.startswith("crash"):
        viol.append({"key": "crash:%s:%s" % (kind, got[6:]), "what": "%s raised %s: %s" % (op, got[6:], msg[:200])})
    elif got != expected:
        if expected == "refuse":
            viol.append({"key": "refusal-missing:%s" % kind, "what": "%s was accepted although the element is still in use" % (op,)})
        else:
            viol.append({"key": "refused:%s" % kind, "what": "%s was refused (%s) although nothing uses the element" % (op, msg[:150])})
    o = observe(wn)
    key = canon(o)
    if got == "refuse" and expected == "refuse" and key != before:
        viol.append({"key": "refusal-changed-model:%s" % kind, "what": "%s was refused but the model changed" % (op,),
                     "detail": _diff(json.loads(before), o)})
    if not viol:
        viol = compare(o, ref)
        for x in viol:
            x["what"] = "after %s: %s" % (op, x["what"])
    return key, viol[:4], "%s:%s" % (kind, got)


def _diff(a, b):
    return {k: [a.get(k), b.get(k)] for k in set(a) | set(b) if a.get(k) != b.get(k)}


def expand(h):
    wn, ref = replay_ops(h["start"], h["ops"])
    o = observe(wn)
    out = {"key": canon(o), "viol": [], "succ": []}
    if h.get("init_only"):
        out["viol"] = compare(o, ref)
        return out
    for op in ref.enabled():
        key, viol, outcome = step(h["start"], h["ops"], op)
        out["succ"].append({"op": op, "key": key, "viol": viol, "outcome": outcome,
                            "nontrivial": op[0].startswith(("remove", "set_"))})
    return out


def run_case(spec):
    """replay of one history: invariant after every step."""
    viol = []
    ops = spec["ops"]
    for i in range(len(ops)):
        _, v, _ = step(spec["start"], ops[:i], ops[i])
        viol += v
    return {"viol": viol}


def run(run_, tier, seed):
    from .. import bfs
    depth = {"quick": {"empty": 4, "pumpnet": 3, "rich": 3, "roles": 3, "lonely": 3}, "thorough": {"empty": 6, "pumpnet": 5, "rich": 4, "roles": 4, "lonely": 4}}[tier]
    tot = {"states": 0, "transitions": 0, "traces_validated_against_impl": 0, "max_depth": 0, "levels": {}}
    samples = []
    for label in ("empty", "pumpnet", "rich", "roles", "lonely"):
        bfs.search(run_, __import__("vf.props.c14", fromlist=["x"]), [label], depth[label], seed=seed)
        for k in ("states", "transitions", "traces_validated_against_impl"):
            tot[k] += run_.extra[k]
        tot["max_depth"] = max(tot["max_depth"], run_.extra["max_depth"])
        tot["levels"][label] = run_.extra["levels"]
        samples += run_.samples[-2:]
    run_.extra.update(tot)
    run_.extra["depth_per_start"] = depth
    run_.samples = samples
