"""C01 - mass is conserved at every node at every reported time step (and DD demand = sum base x pattern x multiplier)."""
from .. import netspace as ns
from ..net import simulate, incidence, expected_demand, connected_to_source

ID = "C01"
LEVEL = "exploration"
TOL = 1e-6   # Newton residual criterion (m3/s)
RULE = ("netspace: 9 skeletons (incl. sources joined directly) x every subset of <= d compatible deviations (quick: d<=1 + named pairs; thorough: d<=2) "
        "from the catalogue {orientation, closed, CV, pumps, valves, loss parameters, demands/patterns/categories, leaks, "
        "tanks, PDD, multiplier, pattern_start, step variants}; each run on WNTRSimulator; oracle: node balance at every "
        "reported step, tank/reservoir demand = net inflow, DD demand = mult*sum(base*pattern(t+pattern_start)). "
        "non-trivial: run converged and at least one junction has inflow and outflow links carrying flow > 1e-6")

KEEP = lambda d: d["k"] not in ("C60", "C140", "L50", "D600")
PAIR_KINDS = [("reverse", "as_tank"), ("reverse", "leak"), ("tleak", "reverse"), ("dem2", "pstart1h"), ("dem2", "pstart90m"),
              ("pdd", "leak"), ("pdd", "leak_window"), ("closed", "closed"), ("reverse", "reverse"), ("pat5", "pstart90m"),
              ("pat1", "pat30"), ("pat5", "pat2h"), ("pat1", "mult2"), ("pdd", "elev_high"), ("hyd15all", "small"),
              ("pat5", "hyd30"), ("dem2", "mult05"), ("reverse", "hpump1"), ("reverse", "valve"), ("pdd", "dem2"),
              ("pat1", "clock3h"), ("demneg", "pdd"), ("lateopts", "pat30"), ("lateopts", "pat2h"), ("lateopts", "pstart90m"), ("lateopts", "pdd"), ("lateopts", "mult2"), ("lateopts", "hyd30"), ("lateopts", "interp"), ("lateopts", "clock3h"), ("lateopts", "headpat"), ("lateopts", "defpat"), ("pat0", "pdd"), ("pat0", "ctl_toggle"), ("pat0", "leak"), ("pat0", "interp"), ("defpat", "pstart90m"), ("defpat", "dem2"), ("defpat", "pdd"), ("defpat", "interp"), ("defpat", "pat1"), ("defpat", "mult2"), ("defpat", "ctl_toggle"), ("interp", "pat1"), ("interp", "pat5"), ("interp", "dem2"), ("interp", "pstart90m"), ("interp", "pat2h"), ("interp", "mult2"), ("interp", "headpat"), ("interp", "pdd"), ("ctl_toggle", "pat1"), ("ctl_toggle", "pat5"), ("ctl_toggle", "pdd"), ("ctl_toggle", "dem2"), ("ctl_toggle", "leak"), ("ctl_toggle", "mult2"), ("ctl_toggle", "pstart90m"), ("ctl_toggle", "hyd30"), ("ctl_toggle", "revorder"), ("revorder", "closed"), ("revorder", "leak"), ("revorder", "pdd"), ("revorder", "valve"), ("revorder", "cv"), ("revorder", "hpump1"), ("demneg", "mult2"), ("demneg", "pstart90m"), ("reverse", "small"), ("tleak", "small"), ("leak", "closed"), ("ppump", "hpump1"), ("ppump", "hpump3"), ("ppump", "valve"), ("demneg", "pddhi"), ("pddhi", "leak"), ("pddhi", "dem2")]


def _named(a, b):
    return (a["k"], b["k"]) in PAIR_KINDS or (b["k"], a["k"]) in PAIR_KINDS


def cases(tier):
    if tier == "quick":
        return ns.enumerate_cases(2, keep=KEEP, pairs_keep=_named)
    return ns.enumerate_cases(2, keep=KEEP)


def balance_violations(s, r, viol, counts):
    """shared with C08: node balance on the reported tables."""
    inc = incidence(s)
    typ = {n["n"]: n["t"] for n in s["nodes"]}
    q, dem, leak = r.link["flowrate"], r.node["demand"], r.node["leak_demand"]
    for i, t in enumerate(r.times):
        for n, lst in inc.items():
            net = sum(sg * q[l][i] for l, sg in lst)
            if typ[n] == "junc":
                counts["junction_balance"] = counts.get("junction_balance", 0) + 1
                err = abs(net - dem[n][i] - leak[n][i])
                if err > TOL * (1 + len(lst)):
                    viol.append({"key": "balance:junction", "what": "junction %s at t=%d: inflow-outflow=%.6g demand=%.6g leak=%.6g (err %.3g)" % (n, t, net, dem[n][i], leak[n][i], err)})
                    return
            elif typ[n] == "tank":
                counts["tank_balance"] = counts.get("tank_balance", 0) + 1
                err = abs(net - leak[n][i] - dem[n][i])
                if err > 1e-9 + 1e-9 * abs(net):
                    viol.append({"key": "balance:tank", "what": "tank %s at t=%d: net inflow %.9g leak %.6g but demand %.9g" % (n, t, net, leak[n][i], dem[n][i])})
                    return
            else:
                counts["reservoir_balance"] = counts.get("reservoir_balance", 0) + 1
                err = abs(net - dem[n][i])
                if err > 1e-9 + 1e-9 * abs(net):
                    viol.append({"key": "balance:reservoir", "what": "reservoir %s at t=%d: net inflow %.9g but demand %.9g" % (n, t, net, dem[n][i])})
                    return


def run_case(s):
    r = simulate(s)
    viol, counts = [], {}
    if r.error:
        return {"viol": [], "nontrivial": False, "outcome": "not-converged", "counts": {"not_converged": 1}}
    balance_violations(s, r, viol, counts)
    st = r.link["status"]
    dem = r.node["demand"]
    if s["opts"]["dm"] == "DD":
        for i, t in enumerate(r.times):
            closed = set(l for l in st if st[l][i] == 0)
            conn = connected_to_source(s, closed)
            for n in s["nodes"]:
                if n["t"] != "junc":
                    continue
                exp = expected_demand(s, n["n"], t)
                if n["n"] in conn:
                    counts["dd_demand"] = counts.get("dd_demand", 0) + 1
                    if abs(dem[n["n"]][i] - exp) > 1e-12 + 1e-9 * abs(exp):
                        viol.append({"key": "dd-demand", "what": "connected junction %s at t=%d delivers %.9g, requested %.9g" % (n["n"], t, dem[n["n"]][i], exp)})
                        break
            if viol:
                break
    q = r.link["flowrate"]
    inc = incidence(s)
    nontriv = any(sum(1 for l, sg in inc[n["n"]] if abs(q[l]).max() > 1e-6) >= 2 for n in s["nodes"] if n["t"] == "junc")
    maxq = max(abs(q[l]).max() for l in q)
    return {"viol": viol, "nontrivial": bool(nontriv), "outcome": "q%.2g_n%d" % (maxq, len(r.times)), "counts": counts}
