"""C20 - demand, resilience and pump-cost metrics equal their documented formulas."""
import itertools, math

ID = "C20"
LEVEL = "exploration"
RULE = ("A (demand): 1-2 junctions x 1-2 demand entries/categories x all pairs of pattern lengths from {1,2,3,5,7,24} x pattern "
        "step {30min,1h,2h} x pattern_start {0,1h,1.5h} x multiplier {1,0.5} x report step {1h,30min} (thorough: lengths {1,2,3,4,5,7,11,24,48}, steps 15 min..3 h, five pattern starts); expected_demand table, "
        "category filter, agreement with a DD WNTRSimulator run, average_expected_demand (= mean over a whole common period) and "
        "population.  B (formulas): water_service_availability, todini_index, modified_resilience_index (both modes), "
        "tank_capacity (cylinder / volume curve), pump_power/energy/cost on synthetic 3-step tables filled from the alphabet "
        "{0,1,2.5,-1,...} by 12 fixed assignment patterns x 0-2 pumps x 1-2 reservoirs x efficiency {50,75,100} x price "
        "{0, 3.61e-8, per-pump, per-pump price 0.0 beside a non-zero global price}.  C (economic): annual_network_cost / annual_ghg_emissions with tank volumes, pipe and PRV "
        "diameters and pump powers placed at, just below and just above every midpoint between consecutive table entries, "
        "head pumps (1- and 3-point curves) and power pumps, efficiency {50,75,100}.  non-trivial: a case whose reference value "
        "depends on >= 2 distinct inputs (pattern with >= 2 distinct multipliers / a table with >= 2 distinct values / a "
        "lookup off the table's first entry)")
ASSUMPTIONS = ["global_efficiency is a percentage (documented: 75 means 75% or 0.75) in every formula",
               "exact ties of the nearest-entry lookup are not part of the space (values sit 1e-6 relative off the midpoints)",
               "WSA is judged where expected demand is non-zero, and where both demand and expected demand are zero (NaN)"]

PATS = {1: [1.3], 2: [0.5, 1.5], 3: [1.0, 2.0, 0.5], 5: [0.6, 1.4, 1.0, 0.2, 1.8], 7: [1.0, 0.8, 1.2, 0.4, 1.6, 0.9, 1.1],
        24: [0.5 + 0.05 * i for i in range(24)], 4: [0.0, 2.0, 1.0, 0.5], 11: [0.3 + 0.17 * ((5 * i) % 11) for i in range(11)],
        48: [0.25 + 0.03 * ((7 * i) % 48) for i in range(48)]}
RHO_G = 1000.0 * 9.81


def pat_at(mults, t, pstart, pstep):
    return mults[int((t + pstart) // pstep) % len(mults)]


# ------------------------------------------------------------------------------------------------ part A
def cases_A(tier):
    out = []
    lens = [1, 2, 3, 5, 7, 24] if tier == "quick" else [1, 2, 3, 4, 5, 7, 11, 24, 48]
    pairs = [(a, b) for a in lens for b in lens if a <= b]
    psteps, pstarts = ((1800, 3600, 7200), (0, 3600, 5400)) if tier == "quick" else ((900, 1800, 3600, 7200, 10800), (0, 1800, 3600, 5400, 9000))
    for (la, lb), pstep, pstart, mult, rep in itertools.product(pairs, psteps, pstarts, (1.0, 0.5), (3600, 1800)):
        if tier == "quick" and rep == 1800 and (mult != 1.0 or pstep != 3600):
            continue
        out.append({"part": "A", "la": la, "lb": lb, "pstep": pstep, "pstart": pstart, "mult": mult, "rep": rep})
        if la != lb and rep == 3600 and (tier == "thorough" or mult == 1.0):
            # layout 1: pattern pb is used ONLY by a second demand entry (no junction has it as its first pattern)
            out.append({"part": "A", "la": la, "lb": lb, "pstep": pstep, "pstart": pstart, "mult": mult, "rep": rep, "lay": 1})
    return out


def build_A(s):
    import wntr
    wn = wntr.network.WaterNetworkModel()
    o = wn.options.time
    o.duration = 8 * 3600; o.hydraulic_timestep = min(3600, s["pstep"], s["rep"]); o.pattern_timestep = s["pstep"]
    o.report_timestep = s["rep"]; o.pattern_start = s["pstart"]
    wn.options.hydraulic.demand_multiplier = s["mult"]
    wn.add_pattern("pa", PATS[s["la"]])
    wn.add_pattern("pb", PATS[s["lb"]])
    wn.add_reservoir("R", base_head=60.0)
    wn.add_junction("J1", base_demand=0.01, demand_pattern="pa", elevation=5.0, demand_category="dom")
    wn.get_node("J1").add_demand(0.004, "pb", "ind")
    p2 = "pa" if s.get("lay") else "pb"
    wn.add_junction("J2", base_demand=0.02, demand_pattern=p2, elevation=2.0, demand_category="dom")
    wn.get_node("J2").add_demand(0.003, None, "ind")
    wn.add_pipe("p1", "R", "J1", length=300, diameter=0.3, roughness=100)
    wn.add_pipe("p2", "J1", "J2", length=300, diameter=0.3, roughness=100)
    dem = {"J1": [(0.01, "pa", "dom"), (0.004, "pb", "ind")], "J2": [(0.02, p2, "dom"), (0.003, None, "ind")]}
    return wn, dem


def run_A(s):
    import wntr, numpy as np, warnings
    wn, dem = build_A(s)
    viol, counts = [], {"A:table_cells": 0, "A:sim_cells": 0, "A:averages": 0}
    pm = {"pa": PATS[s["la"]], "pb": PATS[s["lb"]]}

    def ref(j, t, cat=None):
        tot = 0.0
        for b, p, c in dem[j]:
            if cat is not None and c != cat:
                continue
            tot += b * (1.0 if p is None else pat_at(pm[p], t, s["pstart"], s["pstep"]))
        return tot * s["mult"]
    ed = wntr.metrics.expected_demand(wn)
    times = list(range(0, 8 * 3600 + 1, s["rep"]))
    if [int(t) for t in ed.index] != times:
        viol.append({"key": "expected_demand:index", "what": "index %s, expected the report grid %s" % (list(ed.index)[:5], times[:5])})
    else:
        for cat in (None, "dom", "ind"):
            e = ed if cat is None else wntr.metrics.expected_demand(wn, category=cat)
            bad = None
            for j in ("J1", "J2"):
                for t in times:
                    counts["A:table_cells"] += 1
                    if abs(float(e.loc[t, j]) - ref(j, t, cat)) > 1e-12 and bad is None:
                        bad = (j, t, float(e.loc[t, j]), ref(j, t, cat))
            if bad:
                k = "expected_demand:pattern_start" if s["pstart"] else "expected_demand:value"
                viol.append({"key": k if cat is None else k + ":category", "what": "expected_demand(category=%s)[t=%d, %s] = %.6g, base x pattern(t + pattern_start) x multiplier = %.6g (pattern_start=%d, step=%d, lengths %d/%d)" % (cat, bad[1], bad[0], bad[2], bad[3], s["pstart"], s["pstep"], s["la"], s["lb"])})
        # the simulator delivers exactly this in DD mode
        with warnings.catch_warnings():
            warnings.simplefilter("ignore")
            res = wntr.sim.WNTRSimulator(wn).run_sim()
        d = res.node["demand"]
        bad = None
        for j in ("J1", "J2"):
            for t in times:
                counts["A:sim_cells"] += 1
                if abs(float(d.loc[t, j]) - ref(j, t)) > 1e-9:
                    viol.append({"key": "simulator-demand", "what": "WNTRSimulator delivers %.6g at %s t=%d, requested %.6g" % (float(d.loc[t, j]), j, t, ref(j, t))})
                    break
                if abs(float(d.loc[t, j]) - float(ed.loc[t, j])) > 1e-9 and bad is None:
                    bad = (j, t, float(ed.loc[t, j]), float(d.loc[t, j]))
        if bad:
            viol.append({"key": "expected_demand:vs-simulator" + (":pattern_start" if s["pstart"] else ""), "what": "expected_demand[t=%d, %s] = %.6g but the DD simulator delivers %.6g" % (bad[1], bad[0], bad[2], bad[3])})
    # average over a whole common period == base x mean(pattern) x multiplier
    avg = wntr.metrics.average_expected_demand(wn)
    for j in ("J1", "J2"):
        counts["A:averages"] += 1
        r = s["mult"] * sum(b * (1.0 if p is None else sum(pm[p]) / len(pm[p])) for b, p, c in dem[j])
        if abs(float(avg[j]) - r) > 1e-12:
            period_24 = all((24 * 3600) % (len(pm[p]) * s["pstep"]) == 0 for p in pm)
            viol.append({"key": "average_expected_demand" + ("" if period_24 else ":period-not-dividing-24h"), "what": "average_expected_demand[%s] = %.9g, mean over a whole common period of the patterns = %.9g (pattern periods %s s)" % (j, float(avg[j]), r, [len(pm[p]) * s["pstep"] for p in pm])})
            break
    avg_c = wntr.metrics.average_expected_demand(wn, category="ind")
    r = s["mult"] * 0.004 * sum(pm["pb"]) / len(pm["pb"])
    if abs(float(avg_c["J1"]) - r) > 1e-12 and not viol:
        viol.append({"key": "average_expected_demand:category", "what": "average_expected_demand(category=ind)[J1] = %.9g, expected %.9g" % (float(avg_c["J1"]), r)})
    if not viol:
        pop = wntr.metrics.population(wn)
        for j in ("J1", "J2"):
            r = s["mult"] * sum(b * (1.0 if p is None else sum(pm[p]) / len(pm[p])) for b, p, c in dem[j]) / 0.00000876157
            if abs(r - round(r)) > 0.49 and abs(r - round(r)) < 0.51:
                continue
            if float(pop[j]) != float(round(r)):
                viol.append({"key": "population", "what": "population[%s] = %r, round(%.6f) expected" % (j, float(pop[j]), r)})
    nt = len(set(PATS[s["la"]])) >= 2 or len(set(PATS[s["lb"]])) >= 2
    return {"viol": viol[:4], "counts": counts, "nontrivial": nt, "outcome": "A:ps%d" % (1 if s["pstart"] else 0)}


# ------------------------------------------------------------------------------------------------ part B
ALPH = [0.0, 1.0, 2.5, -1.0, 0.3, 7.0, 40.0, 55.5]


def cell(a, t, c, k):
    return ALPH[(a * 7 + t * 3 + c * 5 + k * 2) % len(ALPH)]


def cases_B(tier):
    out = []
    for a, npump, nres, eff, price in itertools.product(range(12), (0, 1, 2), (1, 2), (50.0, 75.0, 100.0), ("zero", "global", "pump", "pump0")):
        if tier == "quick" and a >= 6 and (eff != 75.0 or price != "global"):
            continue
        out.append({"part": "B", "a": a, "npump": npump, "nres": nres, "eff": eff, "price": price})
    return out


def neq(x, y, tol=1e-9):
    """different, treating NaN == NaN and inf == inf"""
    if isinstance(x, float) and isinstance(y, float):
        if math.isnan(x) and math.isnan(y):
            return False
        if math.isinf(x) or math.isinf(y):
            return x != y
        if math.isnan(x) or math.isnan(y):
            return True
    return abs(x - y) > tol * max(1.0, abs(x), abs(y))


def run_B(s):
    import wntr, numpy as np, pandas as pd, warnings
    a = s["a"]
    wn = wntr.network.WaterNetworkModel()
    wn.options.time.report_timestep = 1800 if a % 2 else 3600
    wn.options.energy.global_efficiency = s["eff"]
    wn.options.energy.global_price = {"zero": 0.0, "global": 3.61e-8, "pump": 1e-8, "pump0": 2e-8}[s["price"]]
    juncs = ["J1", "J2", "J3"]
    elev = {"J1": 5.0, "J2": 0.0, "J3": 12.5}
    for j in juncs:
        wn.add_junction(j, base_demand=0.01, elevation=elev[j])
    res = ["R1", "R2"][:s["nres"]]
    for r in res:
        wn.add_reservoir(r, base_head=50.0)
    wn.add_tank("T1", elevation=20.0, init_level=2.0, min_level=1.0, max_level=6.0, diameter=8.0)
    wn.add_curve("vc", "VOLUME", [(0.0, 0.0), (2.0, 100.0), (4.0, 500.0), (8.0, 900.0)])
    wn.add_tank("T2", elevation=20.0, init_level=2.0, min_level=1.0, max_level=6.0, diameter=8.0, vol_curve="vc")
    wn.add_pipe("p1", "R1", "J1", length=100, diameter=0.3, roughness=100)
    wn.add_pipe("p2", "J1", "J2", length=100, diameter=0.3, roughness=100)
    wn.add_pipe("p3", "J2", "J3", length=100, diameter=0.3, roughness=100)
    wn.add_pipe("p4", "J3", "T1", length=100, diameter=0.3, roughness=100)
    wn.add_pipe("p5", "J3", "T2", length=100, diameter=0.3, roughness=100)
    pumps = []
    if s["npump"] >= 1:
        wn.add_pump("pu1", "R1", "J2", "POWER", 5000.0)
        pumps.append(("pu1", "R1", "J2"))
        if s["price"] == "pump0":      # a pump's own price of zero (free energy) beside a non-zero global price
            wn.get_link("pu1").energy_price = 0.0
    if s["npump"] >= 2:
        wn.add_curve("hc", "HEAD", [(0.05, 30.0)])
        wn.add_pump("pu2", "J3", "J1", "HEAD", "hc")
        pumps.append(("pu2", "J3", "J1"))
        if s["price"] == "pump":
            wn.get_link("pu2").energy_price = 5e-8
    if s["nres"] == 2:
        wn.add_pipe("p6", "R2", "J3", length=100, diameter=0.3, roughness=100)
    nodes = juncs + res + ["T1", "T2"]
    T = [0, 3600, 7200]
    head = pd.DataFrame({n: [40.0 + cell(a, t, i, 0) for t in range(3)] for i, n in enumerate(nodes)}, index=T)
    pres = pd.DataFrame({n: [cell(a, t, i, 1) + (20.0 if i % 2 else 0.0) for t in range(3)] for i, n in enumerate(nodes)}, index=T)
    dem = pd.DataFrame({n: [cell(a, t, i, 2) * (-1.0 if n in res else 1.0) * 0.01 for t in range(3)] for i, n in enumerate(nodes)}, index=T)
    flow = pd.DataFrame({p[0]: [0.01 * cell(a, t, i, 3) for t in range(3)] for i, p in enumerate(pumps)}, index=T)
    viol, counts = [], {}

    def cnt(k, n=1):
        counts["B:" + k] = counts.get("B:" + k, 0) + n
    # ---- WSA
    exp_ = pd.DataFrame({j: [abs(cell(a, t, i, 4)) * 0.01 for t in range(3)] for i, j in enumerate(juncs)}, index=T)
    dj = dem[juncs].abs()
    dj = dj.where(exp_ != 0, 0.0)     # expected 0 => delivered 0 (the only combination a DD run can produce)
    wsa = wntr.metrics.water_service_availability(exp_, dj)
    for j in juncs:
        for t in T:
            e, d = float(exp_.loc[t, j]), float(dj.loc[t, j])
            r = d / e if e != 0 else float("nan")
            cnt("wsa")
            if neq(float(wsa.loc[t, j]), r):
                viol.append({"key": "wsa", "what": "WSA[%d,%s] = %r for demand %r / expected %r" % (t, j, float(wsa.loc[t, j]), d, e)})
    wsa_s = wntr.metrics.water_service_availability(exp_.sum(axis=0), dj.sum(axis=0))
    for j in juncs:
        e, d = float(exp_[j].sum()), float(dj[j].sum())
        if e != 0 and neq(float(wsa_s[j]), d / e):
            viol.append({"key": "wsa", "what": "WSA (time-summed) [%s] = %r, expected %r" % (j, float(wsa_s[j]), d / e)})
    # ---- Todini
    Pstar = 15.0
    tod = wntr.metrics.todini_index(head, pres, dem, flow, wn, Pstar)
    for t in T:
        pout = sum(float(dem.loc[t, j]) * float(head.loc[t, j]) for j in juncs)
        pexp = sum(float(dem.loc[t, j]) * (Pstar + float(head.loc[t, j]) - float(pres.loc[t, j])) for j in juncs)
        pin = sum(-float(dem.loc[t, r]) * float(head.loc[t, r]) for r in res)
        ppump = sum(float(flow.loc[t, p]) * abs(float(head.loc[t, b]) - float(head.loc[t, a_])) for p, a_, b in pumps)
        den = pin + ppump - pexp
        with np.errstate(all="ignore"):
            r = float(np.float64(pout - pexp) / np.float64(den))
        cnt("todini")
        if neq(float(tod.loc[t]), r, 1e-9):
            viol.append({"key": "todini", "what": "todini[%d] = %r, formula gives %r (pumps %d, reservoirs %d)" % (t, float(tod.loc[t]), r, len(pumps), len(res))})
            break
    # ---- MRI
    el = pd.Series(elev)
    pj = pres[juncs]
    mri = wntr.metrics.modified_resilience_index(pj, el, Pstar)
    mri_s = wntr.metrics.modified_resilience_index(pj, el, Pstar, dj, per_junction=False)
    for t in T:
        for j in juncs:
            r = (float(pj.loc[t, j]) + elev[j] - (Pstar + elev[j])) / (Pstar + elev[j])
            cnt("mri")
            if neq(float(mri.loc[t, j]), r):
                viol.append({"key": "mri:per-junction", "what": "MRI[%d,%s] = %r, formula %r" % (t, j, float(mri.loc[t, j]), r)})
        num = sum(float(dj.loc[t, j]) * (float(pj.loc[t, j]) + elev[j]) for j in juncs)
        den = sum(float(dj.loc[t, j]) * (Pstar + elev[j]) for j in juncs)
        with np.errstate(all="ignore"):
            r = float((np.float64(num) - np.float64(den)) / np.float64(den))
        if neq(float(mri_s.loc[t]), r):
            viol.append({"key": "mri:system", "what": "system MRI[%d] = %r, formula %r" % (t, float(mri_s.loc[t]), r)})
    # ---- the tables are label-indexed: the same inputs with their columns / index in ANOTHER order give the same numbers
    rot = lambda L, k: list(L[k:]) + list(L[:k])
    try:
        mri_p = wntr.metrics.modified_resilience_index(pj[rot(juncs, 1)], el[juncs[::-1]], Pstar)
        mri_sp = wntr.metrics.modified_resilience_index(pj[rot(juncs, 1)], el[juncs[::-1]], Pstar, dj[rot(juncs, 2)], per_junction=False)
        tod_p = wntr.metrics.todini_index(head[rot(nodes, 2)], pres[nodes[::-1]], dem[rot(nodes, 1)], flow[[p[0] for p in pumps][::-1]] if pumps else flow, wn, Pstar)
        for t in T:
            cnt("label_order")
            if any(neq(float(mri_p.loc[t, j]), float(mri.loc[t, j])) for j in juncs):
                viol.append({"key": "label-order:mri:per-junction", "what": "MRI changes when the pressure columns / elevation index are given in another order (t=%d)" % t}); break
            if neq(float(mri_sp.loc[t]), float(mri_s.loc[t])):
                viol.append({"key": "label-order:mri:system", "what": "system MRI[%d] = %r with reordered columns, %r in model order" % (t, float(mri_sp.loc[t]), float(mri_s.loc[t]))}); break
            if neq(float(tod_p.loc[t]), float(tod.loc[t]), 1e-9):
                viol.append({"key": "label-order:todini", "what": "todini[%d] = %r with reordered columns, %r in model order" % (t, float(tod_p.loc[t]), float(tod.loc[t]))}); break
    except Exception as e:  # noqa
        viol.append({"key": "label-order:raises:%s" % type(e).__name__, "what": "metrics on reordered tables raised %s: %s" % (type(e).__name__, str(e)[:120])})
    # ---- tank capacity
    lv = pd.DataFrame({"T1": [abs(cell(a, t, 0, 5)) % 6.0 for t in range(3)], "T2": [abs(cell(a, t, 1, 5)) % 6.0 for t in range(3)]}, index=T)
    tc = wntr.metrics.tank_capacity(lv, wn)

    def vcurve(l):
        pts = [(0.0, 0.0), (2.0, 100.0), (4.0, 500.0), (8.0, 900.0)]
        for (x0, y0), (x1, y1) in zip(pts, pts[1:]):
            if x0 <= l <= x1:
                return y0 + (l - x0) * (y1 - y0) / (x1 - x0)
    for t in T:
        r1 = float(lv.loc[t, "T1"]) / 6.0
        r2 = vcurve(float(lv.loc[t, "T2"])) / vcurve(6.0)
        cnt("tank_capacity", 2)
        if neq(float(tc.loc[t, "T1"]), r1) or neq(float(tc.loc[t, "T2"]), r2):
            viol.append({"key": "tank_capacity", "what": "tank_capacity[%d] = (%r, %r), volume ratios (%r, %r) at levels %s" % (t, float(tc.loc[t, "T1"]), float(tc.loc[t, "T2"]), r1, r2, list(lv.loc[t]))})
            break
    # ---- pump power / energy / cost
    if pumps:
        pw = wntr.metrics.pump_power(flow, head, wn)
        en = wntr.metrics.pump_energy(flow, head, wn)
        co = wntr.metrics.pump_cost(en, wn)
        for p, a_, b in pumps:
            price = {"zero": 0.0, "global": 3.61e-8, "pump": 1e-8, "pump0": 2e-8}[s["price"]]
            if p == "pu2" and s["price"] == "pump":
                price = 5e-8
            if p == "pu1" and s["price"] == "pump0":
                price = 0.0
            for t in T:
                r = RHO_G * (float(head.loc[t, b]) - float(head.loc[t, a_])) * float(flow.loc[t, p]) / (s["eff"] / 100.0)
                cnt("pump_power")
                if neq(float(pw.loc[t, p]), r):
                    viol.append({"key": "pump_power", "what": "pump_power[%d,%s] = %r, rho g H q / eta = %r (eta=%g%%)" % (t, p, float(pw.loc[t, p]), r, s["eff"])})
                    break
                if neq(float(en.loc[t, p]), r * wn.options.time.report_timestep):
                    viol.append({"key": "pump_energy", "what": "pump_energy[%d,%s] = %r, power x report step = %r" % (t, p, float(en.loc[t, p]), r * wn.options.time.report_timestep)})
                    break
                if neq(float(co.loc[t, p]), r * wn.options.time.report_timestep * price, 1e-9) and abs(float(co.loc[t, p]) - r * wn.options.time.report_timestep * price) > 1e-15:
                    viol.append({"key": "pump_cost", "what": "pump_cost[%d,%s] = %r, energy x price = %r" % (t, p, float(co.loc[t, p]), r * wn.options.time.report_timestep * price)})
                    break
    seen, out = set(), []
    for v in viol:
        if v["key"] not in seen:
            seen.add(v["key"]); out.append(v)
    return {"viol": out, "counts": counts, "nontrivial": True, "outcome": "B:p%d" % len(pumps)}


# ------------------------------------------------------------------------------------------------ part C
TANK_T = ([500, 1000, 2000, 3750, 5000, 10000], [14020, 30640, 61210, 87460, 122420, 174930])
DIAM_IN = [4, 6, 8, 10, 12, 14, 16, 18, 20, 24, 28, 30]
PIPE_C = [8.31, 10.1, 12.1, 12.96, 15.22, 16.62, 19.41, 22.2, 24.66, 35.69, 40.08, 42.6]
PRV_C = [323, 529, 779, 1113, 1892, 2282, 4063, 4452, 4564, 5287, 6122, 6790]
GHG_C = [5.9, 9.71, 13.94, 18.43, 23.16, 28.09, 33.09, 38.35, 43.76, 54.99, 66.57, 72.58]
PUMP_T = ([11310, 22620, 24880, 31670, 38000, 45240, 49760, 54280, 59710], [2850, 3225, 3307, 3563, 3820, 4133, 4339, 4554, 4823])


def around(keys):
    """table entries, values just below / above every midpoint, and values beyond both ends"""
    out = [keys[0] * 0.5, keys[-1] * 1.5] + list(keys)
    for a, b in zip(keys, keys[1:]):
        m = 0.5 * (a + b)
        out += [m * (1 - 1e-6), m * (1 + 1e-6)]
    return out


def nearest(keys, vals, x):
    best = min(range(len(keys)), key=lambda i: (abs(keys[i] - x), i))
    return vals[best]


def cases_C(tier):
    out = []
    dk = [d * 0.0254 for d in DIAM_IN]
    for i, d in enumerate(around(dk)):
        out.append({"part": "C", "what": "pipe", "D": d, "L": 100.0 + i})
        out.append({"part": "C", "what": "prv", "D": d})
    for v in around(TANK_T[0]):
        out.append({"part": "C", "what": "tank", "vol": v, "shape": "cyl"})
        out.append({"part": "C", "what": "tank", "vol": v, "shape": "curve"})
    for eff in (50.0, 75.0, 100.0):
        for pw in around(PUMP_T[0]):
            out.append({"part": "C", "what": "ppump", "Pmax": pw, "eff": eff})
            out.append({"part": "C", "what": "hpump1", "Pmax": pw, "eff": eff})
            if tier != "quick" or eff == 75.0:
                out.append({"part": "C", "what": "hpump3", "Pmax": pw, "eff": eff})
    return out


def run_C(s):
    import wntr, numpy as np
    wn = wntr.network.WaterNetworkModel()
    wn.add_reservoir("R", base_head=50.0)
    wn.add_junction("J1", base_demand=0.01)
    wn.add_junction("J2", base_demand=0.01)
    base_len, base_d = 250.0, 0.3
    wn.add_pipe("p0", "R", "J1", length=base_len, diameter=base_d, roughness=100)
    dk = [d * 0.0254 for d in DIAM_IN]
    exp_cost = nearest(dk, PIPE_C, base_d) * base_len
    exp_ghg = nearest(dk, GHG_C, base_d) * base_len
    w = s["what"]
    off_first = False
    if w == "pipe":
        wn.add_pipe("p1", "J1", "J2", length=s["L"], diameter=s["D"], roughness=100)
        exp_cost += nearest(dk, PIPE_C, s["D"]) * s["L"]
        exp_ghg += nearest(dk, GHG_C, s["D"]) * s["L"]
        off_first = nearest(dk, PIPE_C, s["D"]) != PIPE_C[0]
    elif w == "prv":
        wn.add_valve("v1", "J1", "J2", diameter=s["D"], valve_type="PRV", initial_setting=20.0)
        exp_cost += nearest(dk, PRV_C, s["D"])
        off_first = nearest(dk, PRV_C, s["D"]) != PRV_C[0]
    elif w == "tank":
        # construction volume: cylinder pi/4 D^2 max_level; curve: V(max) + min_level * V(max)/(max-min)
        if s["shape"] == "cyl":
            mx = 5.0
            D = math.sqrt(s["vol"] / (math.pi / 4.0 * mx))
            wn.add_tank("T", elevation=10.0, init_level=2.0, min_level=1.0, max_level=mx, diameter=D)
            vol = math.pi * (D / 2.0) ** 2 * mx
        else:
            mn, mx = 1.0, 5.0
            vmax = s["vol"] / (1.0 + mn / (mx - mn))
            wn.add_curve("vc", "VOLUME", [(0.0, 0.0), (2.5, 0.3 * vmax), (5.0, vmax), (6.0, 1.1 * vmax)])
            wn.add_tank("T", elevation=10.0, init_level=2.0, min_level=mn, max_level=mx, diameter=10.0, vol_curve="vc")
            vol = vmax + mn * vmax / (mx - mn)
        wn.add_pipe("pt", "J2", "T", length=base_len, diameter=base_d, roughness=100)
        wn.add_pipe("pj", "J1", "J2", length=base_len, diameter=base_d, roughness=100)
        exp_cost += 2 * nearest(dk, PIPE_C, base_d) * base_len + nearest(TANK_T[0], TANK_T[1], vol)
        exp_ghg += 2 * nearest(dk, GHG_C, base_d) * base_len
        off_first = nearest(TANK_T[0], TANK_T[1], vol) != TANK_T[1][0]
    else:
        wn.options.energy.global_efficiency = s["eff"]
        eta = s["eff"] / 100.0
        target = s["Pmax"] * eta       # hydraulic maximum power so that Pmax/eta hits the probe value
        if w == "ppump":
            wn.add_pump("pu", "J1", "J2", "POWER", target)
            pm = target / eta
        else:
            # H = A - B q^C; maximum of rho g q H at q* = (A/(B(C+1)))^(1/C)
            if w == "hpump1":
                H0 = 30.0
                # one-point curve (Q0,H0): A = 4/3 H0, B = H0/(3 Q0^2), C = 2  => q* = sqrt(A/(3B)), P* = rho g q* (A - B q*^2) = rho g q* 2A/3
                # choose Q0 so that P* = target: q* = sqrt(4/3 H0 / (H0/Q0^2)) = Q0 * sqrt(4/3)... solve numerically
                A = 4.0 / 3.0 * H0
                # q* = sqrt(A / (3 B)) with B = H0/(3 Q0^2)  => q* = Q0 * sqrt(A / H0) = Q0 * sqrt(4/3)
                # P* = rho g q* (2A/3)
                qs = target / (RHO_G * 2.0 * A / 3.0)
                Q0 = qs / math.sqrt(4.0 / 3.0)
                wn.add_curve("hc", "HEAD", [(Q0, H0)])
                B, C = H0 / (3.0 * Q0 ** 2), 2.0
            else:
                # three points taken from an exact curve H = A - B q^C with C = 1.5
                A, C = 45.0, 1.5
                # P* = rho g q* (A - B q*^C), q*^C = A/(B (C+1)) => P* = rho g q* A C/(C+1)
                qs = target / (RHO_G * A * C / (C + 1.0))
                B = A / ((C + 1.0) * qs ** C)
                qm = (A / B) ** (1.0 / C)
                pts = [(0.0, A), (0.4 * qm, A - B * (0.4 * qm) ** C), (0.8 * qm, A - B * (0.8 * qm) ** C)]
                wn.add_curve("hc", "HEAD", pts)
            wn.add_pump("pu", "J1", "J2", "HEAD", "hc")
            qs_ = (A / (B * (C + 1.0))) ** (1.0 / C)
            pm = RHO_G * qs_ * (A - B * qs_ ** C) / eta
        exp_cost += nearest(PUMP_T[0], PUMP_T[1], pm)
        off_first = nearest(PUMP_T[0], PUMP_T[1], pm) != PUMP_T[1][0]
    viol = []
    try:
        cost = float(wntr.metrics.annual_network_cost(wn))
    except Exception as e:  # noqa
        return {"viol": [{"key": "annual-cost:crash:%s" % type(e).__name__, "what": "annual_network_cost raised %s: %s (%s)" % (type(e).__name__, str(e)[:100], s)}], "nontrivial": off_first}
    ghg = float(wntr.metrics.annual_ghg_emissions(wn))
    if abs(cost - exp_cost) > 1e-6 * max(1.0, exp_cost):
        key = "annual-cost:%s" % w
        if w in ("ppump", "hpump1", "hpump3"):
            # which reading of the efficiency reproduces the library's number?
            alt = exp_cost - nearest(PUMP_T[0], PUMP_T[1], pm) + nearest(PUMP_T[0], PUMP_T[1], pm * eta / s["eff"])
            if abs(cost - alt) <= 1e-6 * max(1.0, alt):
                key = "annual-cost:pump-efficiency-taken-as-fraction"
        viol.append({"key": key, "what": "annual_network_cost = %.6f, documented lookup gives %.6f (%s)" % (cost, exp_cost, s)})
    if abs(ghg - exp_ghg) > 1e-6 * max(1.0, exp_ghg):
        viol.append({"key": "annual-ghg", "what": "annual_ghg_emissions = %.6f, documented lookup gives %.6f (%s)" % (ghg, exp_ghg, s)})
    return {"viol": viol, "nontrivial": off_first, "outcome": "C:%s" % w, "counts": {"C:lookups": 1}}


def cases(tier):
    return cases_A(tier) + cases_B(tier) + cases_C(tier)


def run_case(s):
    return {"A": run_A, "B": run_B, "C": run_C}[s["part"]](s)
