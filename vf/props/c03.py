"""C03 - WNTRSimulator and EpanetSimulator agree on models both support; INP flow units do not matter; reading an INP
file and simulating it gives what EPANET itself computes for that file."""
import itertools, math, os
from ..net import *
from .. import netspace
from .. import epanet as EN

ID = "C03"
LEVEL = "exploration"
RULE = ("netspace skeletons x every single deviation (quick) / every compatible pair (thorough) of the common feature set "
        "{orientation, CV, head pumps with 1/2/3-point curves, power pump, PRV/PSV/FCV/TCV with active and inactive settings, "
        "initial status, tank near limits, volume curve, patterns, pattern_start, multiplier, hydraulic/pattern step variants, "
        "start_clocktime, global PDD, time / clock-time / tank-level / pressure controls, a rule with ELSE} x three legs: (A) "
        "WNTRSimulator vs EpanetSimulator at every report step; (B) EpanetSimulator with the INP file written in each of the ten "
        "flow units (results compared in SI); (C) a hand-written reference INP text in each of ten units (own unit table) run by "
        "EPANET through ctypes vs the same text read by read_inpfile and simulated by both WNTR simulators.  tolerances: heads, "
        "pressures, levels 0.01 m + 1e-3 rel; demands, flows 2e-5 m3/s + 1e-3 rel; closed/not-closed status equal.  non-trivial: "
        "the case has >= 1 deviation and >= 2 compared report steps")
ASSUMPTIONS = ["tank-to-tank links made shorter (L50) or wider (D600) than the skeleton's are left out: the two tanks then equalise faster than the hydraulic step and the explicit level integration amplifies file-precision differences (EPANET against itself in two unit systems differs)", "comparison of a case stops at the first report step at which EPANET itself issues a warning (unbalanced, negative pressures, pump cannot deliver, ...): from there on the model is outside the common feature set",
               "near-ties: a mismatch is not judged when, at that or the previous step, a state-dependent trigger (tank level vs limit or control threshold, junction pressure vs control threshold, valve/pump/check-valve switching quantity) is within the tolerance of its threshold in either engine; such truncations are counted",
               "PDD cases are compared only at steps where every junction pressure is outside (Pmin, Preq) by more than the tolerance in both engines or the results agree; EPANET's treatment inside the band is judged by C07, not here",
               "both engines are run with ACCURACY 1e-6 and 200 trials; EPANET results are float32",
               "cases with a power pump get 0.06 m extra head slack: EPANET computes the constant-power head gain with the specific weight 62.4 lb/ft3 (9802 N/m3), WNTR with 9810 N/m3"]

H = 3600
UNITS = ["CFS", "GPM", "MGD", "IMGD", "AFD", "LPS", "LPM", "MLD", "CMH", "CMD"]
HTOL, QTOL = 0.01, 2e-5
HSENS = 1e-3     # head uncertainty fed into the conditioning term of flow comparisons
COMMON = {"reverse", "closed", "cv", "K5", "D100", "D600", "C60", "C140", "L50", "L2000", "hpump1", "hpump2", "hpump3", "ppump", "valve",
          "dem2", "dem2c", "dem0", "demneg", "pat0", "pat1", "pat5", "near_min", "near_max", "vcurve", "headpat", "as_tank", "pdd", "pddmin", "mult2", "mult05", "pstart1h",
          "pstart90m", "hyd30", "pat30", "pat2h", "clock3h", "revorder", "defpat", "lateopts"}


def control_devs(s):
    names = set(l["n"] for l in s["links"])
    tank = any(n["t"] == "tank" for n in s["nodes"])
    src = "pu" if "pu" in names else "p1"
    out = [("ctl_time", [{"kind": "time", "t": 2 * H, "link": "p2", "value": "CLOSED"}, {"kind": "time", "t": 3 * H, "link": "p2", "value": "OPEN"}]),
           ("ctl_clock", [{"kind": "clock", "t": 5 * H, "link": "p2", "value": "CLOSED"}]),
           ("ctl_pressure", [{"kind": "pressure", "node": "J2" if any(n["n"] == "J2" for n in s["nodes"]) else "J1", "rel": "<", "thr": 30.0, "link": "p2", "value": "OPEN"}]),
           ("ctl_pressure_nonstrict", [{"kind": "pressure", "node": "J2" if any(n["n"] == "J2" for n in s["nodes"]) else "J1", "rel": "<=", "thr": 30.0, "link": "p2", "value": "OPEN"}])]      # (a second control closing p2 on high pressure would undo itself: chattering, ill-posed)
    # rules on the simulation time whose bound is a rule step AND a report step: the strict and the non-strict relation differ
    # in that very report row
    for rel in (">", ">=", "<", "<="):
        out.append(("ctl_rule_time_%s" % {">": "gt", ">=": "ge", "<": "lt", "<=": "le"}[rel],
                    [{"kind": "time", "rel": rel, "t": 3 * H, "link": "p2", "value": "CLOSED", "else_value": "OPEN", "rule": True, "prio": 3}]))
    # rules on the clock time in the noon hour and the midnight hour (12:xx PM / 12:xx AM in the rule text); the case loop
    # starts these models at 10 AM / 10 PM so that the instant falls inside the 6-hour run
    out.append(("ctl_rule_clock_noon", [{"kind": "clock", "rel": ">=", "t": 12 * H + 1800, "link": "p2", "value": "CLOSED", "else_value": "OPEN", "rule": True, "prio": 3}]))
    out.append(("ctl_rule_clock_midnight", [{"kind": "clock", "rel": "<", "t": 1800, "link": "p2", "value": "CLOSED", "else_value": "OPEN", "rule": True, "prio": 3}]))
    if tank:
        out.append(("ctl_level", [{"kind": "level", "node": "T", "rel": ">", "thr": 3.4, "link": src, "value": "CLOSED"},
                                  {"kind": "level", "node": "T", "rel": "<", "thr": 2.6, "link": src, "value": "OPEN"}]))
        # the same pair spelled with the non-strict relations the API accepts (an INP file only knows ABOVE / BELOW)
        out.append(("ctl_level_nonstrict", [{"kind": "level", "node": "T", "rel": ">=", "thr": 3.4, "link": src, "value": "CLOSED"},
                                            {"kind": "level", "node": "T", "rel": "<=", "thr": 2.6, "link": src, "value": "OPEN"}]))
        out.append(("ctl_rule", [{"kind": "level", "node": "T", "rel": ">", "thr": 3.3, "link": "p2", "value": "CLOSED", "else_value": "OPEN", "rule": True, "prio": 3}]))
        # the same rule next to a simple control whose condition holds all the time (and changes nothing)
        out.append(("ctl_rule_plus_simple", [{"kind": "level", "node": "T", "rel": ">", "thr": 3.3, "link": "p2", "value": "CLOSED", "else_value": "OPEN", "rule": True, "prio": 3},
                                             {"kind": "level", "node": "T", "rel": "<", "thr": 5.95, "link": src, "value": "OPEN"}]))
    return out


def cases(tier):
    out = []
    # a TCV with setting 0 and no minor loss is a loss-free link: EPANET gives it a tiny resistance, WNTR none, and two of
    # them on a cycle make WNTR's system singular - a modelling corner, kept out of the common feature set (C02 covers it)
    keep = lambda d: d["k"] in COMMON and not (d["k"] == "valve" and d.get("vt") == "TCV" and d.get("setting") == 0.0)
    base = netspace.enumerate_cases(1 if tier == "quick" else 2, keep=keep)
    if tier == "quick":
        # named pairs: a pattern needs a pattern-related option to show, a valve needs both unit families etc.
        NAMED = [{"lateopts", "pat30"}, {"lateopts", "pat2h"}, {"lateopts", "pdd"}, {"lateopts", "clock3h"}, {"pat0", "pdd"}, {"pat1", "pstart1h"}, {"pat5", "pstart90m"}, {"pat1", "pat30"}, {"pat5", "pat2h"}, {"dem2", "mult2"}, {"pat1", "pdd"},
                 {"headpat", "pstart1h"}, {"pat5", "clock3h"}, {"hyd30", "pat1"}]
        names = set().union(*NAMED)
        base += [s for s in netspace.enumerate_cases(2, keep=lambda d: d["k"] in names, pairs_keep=lambda a, b: {a["k"], b["k"]} in NAMED)
                 if len(s["id"]["devs"]) == 2]
    for s in base:
        s["opts"]["dur"] = 6 * H
        # the [PIPES] status field holds ONE of OPEN / CLOSED / CV: an initially closed check-valve pipe is not expressible
        # in the file EPANET gets (it is written as CV, i.e. open) - outside the common feature set
        if any(l["t"] == "pipe" and l.get("cv") and l["status"] == "CLOSED" for l in s["links"]):
            continue
        # two tanks joined by a short or wide pipe equalise within a fraction of the hydraulic step: the explicit level
        # integration both engines use then overshoots back and forth and amplifies file-precision differences (EPANET run on
        # the same model in two unit systems differs by 0.5 %) - an ill-conditioned comparison, kept out of the space
        tanks_ = set(n["n"] for n in s["nodes"] if n["t"] == "tank")
        if any(d.get("k") in ("L50", "D600") and link(s, d["l"])["a"] in tanks_ and link(s, d["l"])["b"] in tanks_ for d in s["id"]["devs"] if "l" in d):
            continue
        out.append(s)
    # control deviations (alone, and with clock3h / pdd / hyd30)
    for name, sk in netspace.skeletons().items():
        for cname, ctr in control_devs(sk):
            for extra in ((), ("clock3h",), ("pdd",), ("hyd30",)):
                if tier == "quick" and extra and not (cname == "ctl_clock" and extra == ("clock3h",)):
                    continue
                s = clone(sk)
                ok = True
                for e in extra:
                    if netspace.apply(s, {"k": e}) is None:
                        ok = False
                if not ok or "p2" not in [l["n"] for l in s["links"]]:
                    continue
                if any(n["t"] == "tank" for n in s["nodes"]):
                    node(s, "T")["diam"] = 15.0
                s["controls"] = clone(ctr)
                if cname == "ctl_rule_clock_noon":
                    s["opts"]["clock"] = 10 * H
                elif cname == "ctl_rule_clock_midnight":
                    s["opts"]["clock"] = 22 * H
                s["opts"]["dur"] = 6 * H
                s["id"] = {"skel": name, "devs": [{"k": cname}] + [{"k": e} for e in extra]}
                out.append(s)
    # valve setting controls: the setting changes during the run so that the valve has to change status
    for name in ("chain", "tee", "loop"):
        for vt, s0, s1 in (("PRV", 20.0, 80.0), ("PRV", 80.0, 20.0), ("PSV", 47.0, 20.0), ("FCV", 1.0, 0.005), ("TCV", 0.0, 50.0)):
            s = clone(netspace.skeletons()[name])
            if netspace.apply(s, {"k": "valve", "l": "p2", "vt": vt, "setting": s0}) is None or not netspace.valid(s):
                continue
            s["controls"] = [{"kind": "time", "t": 2 * H, "link": "p2", "attr": "setting", "value": s1},
                             {"kind": "time", "t": 4 * H, "link": "p2", "attr": "setting", "value": s0}]
            s["opts"]["dur"] = 6 * H
            s["id"] = {"skel": name, "devs": [{"k": "valve", "l": "p2", "vt": vt, "setting": s0}, {"k": "ctl_setting"}]}
            out.append(s)
    # a regulating valve with a closed bypass (skeleton par: p2 || p3 is the only route to J2, J3), both ways round, and with
    # the bypass opened / closed by time controls: the station as a whole keeps the zone connected
    if tier == "quick":          # (thorough contains every valve x closed pair already)
        for vl, bp in (("p2", "p3"), ("p3", "p2")):
            for vt, sv in (("PRV", 20.0), ("PSV", 20.0), ("FCV", 0.005), ("TCV", 50.0)):
                for ctl in (False, True):
                    s = clone(netspace.skeletons()["par"])
                    devs = [{"k": "valve", "l": vl, "vt": vt, "setting": sv}, {"k": "closed", "l": bp}]
                    for d in devs:
                        s = netspace.apply(s, d)
                    if not netspace.valid(s):
                        continue
                    if ctl:
                        s["controls"] = [{"kind": "time", "t": 2 * H, "link": bp, "value": "OPEN"}, {"kind": "time", "t": 4 * H, "link": bp, "value": "CLOSED"}]
                        devs = devs + [{"k": "ctl_bypass"}]
                    s["opts"]["dur"] = 6 * H
                    s["id"] = {"skel": "par", "devs": devs}
                    out.append(s)
    return out


# ------------------------------------------------------------------------------------------------ running both engines
def run_wntr(wn, s):
    import wntr, warnings
    sim = wntr.sim.WNTRSimulator(wn)
    with warnings.catch_warnings(record=True) as w:
        warnings.simplefilter("always")
        import scipy.sparse.linalg as spl
        warnings.filterwarnings("error", "Matrix is exactly singular", spl.MatrixRankWarning)
        res = sim.run_sim()
    return wrap(res, wn, [str(x.message) for x in w])


def run_epanet(wn, units=None):
    import wntr, warnings
    if units:
        wn.options.hydraulic.inpfile_units = units
    pre = "c03_%d" % os.getpid()
    with warnings.catch_warnings():
        warnings.simplefilter("ignore")
        res = wntr.sim.EpanetSimulator(wn).run_sim(file_prefix=pre)
    txt = open(pre + ".inp").read()
    return wrap(res, wn, []), txt


def prepare(s):
    wn = build(s)
    wn.options.hydraulic.accuracy = 1e-6
    wn.options.hydraulic.trials = 200
    return wn


def triggers(s, r, i):
    """distances of the state-dependent triggers to their thresholds at step i of result r: {trigger id: distance}"""
    out = {}

    def put(k, d):
        out[k] = min(out.get(k, float("inf")), d)
    for n in s["nodes"]:
        if n["t"] == "tank":
            lv = float(r.node["pressure"][n["n"]][i])
            put(("tank-min", n["n"]), abs(lv - n["min"]))
            put(("tank-max", n["n"]), abs(lv - n["max"]))
    for k, c in enumerate(s["controls"]):
        if c["kind"] in ("level", "pressure"):
            put(("ctl", k), abs(float(r.node["pressure"][c["node"]][i]) - c["thr"]))
    for l in s["links"]:
        ha, hb = float(r.node["head"][l["a"]][i]), float(r.node["head"][l["b"]][i])
        q = float(r.link["flowrate"][l["n"]][i])
        if l["t"] == "pipe" and l.get("cv"):
            put(("cv", l["n"]), min(abs(ha - hb), abs(q) * 500.0))
        elif l["t"] in ("hpump", "ppump"):
            put(("pump", l["n"]), abs(q) * 500.0)
        elif l["t"] in ("PRV", "PSV", "FCV"):
            pa_, pb_ = float(r.node["pressure"][l["a"]][i]), float(r.node["pressure"][l["b"]][i])
            # an ACTIVE valve sits on its setting by definition; its status switches when the OTHER side's pressure
            # reaches the setting (active <-> open) or the head difference changes sign (<-> closed)
            if l["t"] == "PRV":
                put(("valve", l["n"]), min(abs(pa_ - l["setting"]), abs(ha - hb)))
            elif l["t"] == "PSV":
                put(("valve", l["n"]), min(abs(pb_ - l["setting"]), abs(ha - hb)))
            else:
                put(("valve", l["n"]), abs(ha - hb))
    return out


TIE_KEY = [None]        # the trigger the last tie_distance call found nearest


def tie_distance(s, a, b, i):
    """a near-tie needs BOTH engines close to the SAME trigger at the same step (i or i-1): the smallest, over steps and
    triggers, of the larger of the two engines' distances"""
    best, TIE_KEY[0] = float("inf"), None
    for j in (i, max(i - 1, 0)):
        ta, tb = triggers(s, a, j), triggers(s, b, j)
        for k in ta:
            if k in tb and max(ta[k], tb[k]) < best:
                best, TIE_KEY[0] = max(ta[k], tb[k]), k
    return best


def compare(s, a, b, la, lb, upto, counts, near=0.05, limit_steps=()):
    """first mismatch between results a and b (wrapped Sims) over the first `upto` common report steps, or None.
    returns (message, step) ; near-ties return ('near-tie', step)"""
    import numpy as np
    n = min(len(a.times), len(b.times), upto)
    if a.times[:n] != b.times[:n]:
        return "report times %s vs %s" % (a.times[:n], b.times[:n]), 0
    pdd = s["opts"]["dm"] == "PDD"
    # EPANET's constant-power pump law uses the specific weight 62.4 lb/ft3 (9802 N/m3), WNTR rho*g = 9810 N/m3: the head
    # gain of a power pump differs by 0.08 % by construction -> extra head slack of 1e-3 x 60 m when the case has one
    pslack = 0.06 if any(l["t"] == "ppump" for l in s["links"]) else 0.0
    for i in range(n):
        if pdd:
            inside = False
            for nd in s["nodes"]:
                if nd["t"] == "junc":
                    for r in (a, b):
                        p = float(r.node["pressure"][nd["n"]][i])
                        # WNTR smooths the corners of the pressure-demand curve over 0.05 m, EPANET does not
                        if abs(p - s["opts"]["pmin"]) < 0.15 or abs(p - s["opts"]["preq"]) < 0.15:
                            inside = True
            if inside:
                counts["pdd_band_steps"] = counts.get("pdd_band_steps", 0) + 1
        msg = None
        closed_now = set(l["n"] for l in s["links"] if float(a.link["status"][l["n"]][i]) == 0 and float(b.link["status"][l["n"]][i]) == 0)
        conn = connected_to_source(s, closed_now)
        # conditioning: the flow of a pipe whose head loss is a few millimetres reacts to a head change dh with
        # dq = q / (1.852 |loss|) dh; heads (tank levels) of the two runs differ by up to HSENS from file precision alone
        qsens = {}
        for l in s["links"]:
            q_ = max(abs(float(a.link["flowrate"][l["n"]][i])), abs(float(b.link["flowrate"][l["n"]][i])))
            loss = abs(float(b.node["head"][l["a"]][i]) - float(b.node["head"][l["b"]][i]))
            if float(b.link["status"][l["n"]][i]) == 0 or l["t"] not in ("pipe", "TCV"):
                qsens[l["n"]] = 0.0
            else:
                # loss ~ q^1.852 (pipe) resp. q^2 (throttle valve)
                qsens[l["n"]] = q_ / ((1.852 if l["t"] == "pipe" else 2.0) * max(loss, 1e-9)) * HSENS
        for nd in s["nodes"]:
            nm = nd["n"]
            if nm not in conn:
                counts["isolated_node_skips"] = counts.get("isolated_node_skips", 0) + 1
                continue            # cut off from every source in both engines: WNTR reports zeros (C09), EPANET a floating head
            for key, tol in (("head", HTOL), ("pressure", HTOL), ("demand", QTOL)):
                if key == "pressure" and nd["t"] == "res":
                    continue        # a reservoir has no pressure (EPANET reports head - base head)
                x, y = float(a.node[key][nm][i]), float(b.node[key][nm][i])
                if key == "demand" and nd["t"] in ("tank", "res"):
                    tol = tol + sum(qsens[l["n"]] for l in s["links"] if nm in (l["a"], l["b"]))     # = net flow of its links
                if abs(x - y) > tol + 1e-3 * max(abs(x), abs(y)) + (pslack if key != "demand" else 0.0):
                    msg = "%s of %s at t=%d: %s %.6g, %s %.6g" % (key, nm, a.times[i], la, x, lb, y)
                    break
            if msg:
                break
        if not msg:
            for l in s["links"]:
                nm = l["n"]
                x, y = float(a.link["flowrate"][nm][i]), float(b.link["flowrate"][nm][i])
                if abs(x - y) > QTOL + 1e-3 * max(abs(x), abs(y)) + qsens[nm]:
                    msg = "flow of %s at t=%d: %s %.6g, %s %.6g" % (nm, a.times[i], la, x, lb, y)
                    break
                sx, sy = float(a.link["status"][nm][i]), float(b.link["status"][nm][i])
                if (sx == 0) != (sy == 0):
                    msg = "status of %s at t=%d: %s %g, %s %g" % (nm, a.times[i], la, sx, lb, sy)
                    break
        counts["steps_compared"] = counts.get("steps_compared", 0) + 1
        if msg:
            if pdd:
                # the reference must itself follow the documented pressure-demand curve before it can judge anybody: EPANET 2.2
                # delivers the FULL demand at a junction next to a closed PRV although its own pressure is below the required
                # pressure (pumpfeed + PRV 20 + PDD); such a step is skipped and counted
                for nd in s["nodes"]:
                    if nd["t"] == "junc" and nd["demands"]:
                        pe, de = float(b.node["pressure"][nd["n"]][i]), float(b.node["demand"][nd["n"]][i])
                        D = expected_demand(s, nd["n"], b.times[i])
                        pmin_, preq_ = s["opts"]["pmin"], s["opts"]["preq"]
                        if D > 0 and pmin_ + 0.15 < pe < preq_ - 0.15:
                            doc = D * ((pe - pmin_) / (preq_ - pmin_)) ** s["opts"]["pexp"]
                            if abs(de - doc) > 1e-3 * D + 1e-6 and lb.startswith("EPANET") and "PDD" == s["opts"]["dm"]:
                                counts["reference_off_its_own_curve"] = counts.get("reference_off_its_own_curve", 0) + 1
                                return "reference-off-its-own-curve", i
            if pdd and inside:
                counts["pdd_band_skips"] = counts.get("pdd_band_skips", 0) + 1
                return "pdd-band", i
            # a tank reported outside its level range is never a matter of event timing
            for n in s["nodes"]:
                if n["t"] == "tank":
                    for r_, lab in ((a, la), (b, lb)):
                        lv = float(r_.node["pressure"][n["n"]][i])
                        if lv < n["min"] - 0.01 or lv > n["max"] + 0.01:
                            return "tank %s level %.4f outside [%g, %g] in %s; %s" % (n["n"], lv, n["min"], n["max"], lab, msg), i
            d = tie_distance(s, a, b, i)
            # a tank that sat on a level limit inside this step in EPANET (possibly between report instants): the engines
            # may legitimately differ in how long the adjacent links stay shut - but only while engine a's tank is at the
            # limit too, or has the same level as in EPANET; a tank that went THROUGH its limit is no tie
            lim_ok = False
            if i in limit_steps:
                for n in s["nodes"]:
                    if n["t"] == "tank":
                        for j in (i, max(i - 1, 0)):
                            la_, lb_ = float(a.node["pressure"][n["n"]][j]), float(b.node["pressure"][n["n"]][j])
                            if min(abs(la_ - n["min"]), abs(la_ - n["max"]), abs(la_ - lb_)) < near:
                                lim_ok = True
            if lim_ok or (d < near and TIE_KEY[0] is not None and TIE_KEY[0][0] in ("tank-min", "tank-max")):
                # a difference in how long a tank sits on its limit shifts the later levels by at most about one hydraulic
                # step of tank flow and does not grow: tanks that END the compared horizon much further apart are no tie
                import math
                ns_ = min(len(a.times), len(b.times), upto)
                for n_ in s["nodes"]:
                    if n_["t"] != "tank":
                        continue
                    # (EPANET forgets a user's CLOSED command on a link that its tank-limit logic had temporarily closed and
                    # reopens it with the tank: where a control commands the status of a link of this tank, the engines may
                    # part for good at a limit event - the old false alarm of section 8.3, still excused)
                    if any(c.get("attr", "status") == "status" and n_["n"] in (link(s, c["link"])["a"], link(s, c["link"])["b"]) for c in s["controls"]):
                        continue
                    vc_ = n_.get("vcurve")
                    area_ = min((v1 - v0) / (l1 - l0) for (l0, v0), (l1, v1) in zip(vc_, vc_[1:])) if vc_ else math.pi / 4.0 * n_["diam"] ** 2
                    qmax_ = max(max(abs(float(a.node["demand"][n_["n"]][j])), abs(float(b.node["demand"][n_["n"]][j]))) for j in range(ns_))
                    bound_ = qmax_ * s["opts"]["hyd"] / area_ + near
                    apart_ = abs(float(a.node["pressure"][n_["n"]][ns_ - 1]) - float(b.node["pressure"][n_["n"]][ns_ - 1]))
                    # ... AND the engines are still in different regimes at the end: a link of this tank is shut in one engine
                    # and open in the other at both of the last two compared steps (well after the event)
                    apart_regime = ns_ - 2 > i + 1 and any(
                        all((float(a.link["status"][l_["n"]][j]) == 0) != (float(b.link["status"][l_["n"]][j]) == 0) for j in (ns_ - 1, ns_ - 2))
                        for l_ in s["links"] if n_["n"] in (l_["a"], l_["b"]))
                    if apart_ > bound_ and apart_regime:
                        return "%s; no event-timing tie: tank %s ends the run %.3f m apart (one step of its largest flow is %.3f m) with a link of the tank shut in one engine only" % (msg, n_["n"], apart_, bound_), i
            if d < near or lim_ok:
                counts["near_tie_truncations"] = counts.get("near_tie_truncations", 0) + 1
                return "near-tie", i
            return msg, i
    return None, n


def epanet_events(txt, s):
    """(index of the first report step at or after which EPANET itself warned or None,
        set of report-step indices i such that a tank sat on a level limit at some EPANET instant in (t_{i-1}, t_i])"""
    tanks = [n for n in s["nodes"] if n["t"] == "tank"]
    try:
        steps = EN.run_hydraulics(txt, links=[], nodes=[n["n"] for n in tanks])
    except EN.EpanetError:
        return 0, set()
    rep = s["opts"]["rep"]
    warn, limit = None, set()
    for t, code, _, nv in steps:
        if code and warn is None:
            warn = int(t // rep)
        for n in tanks:
            lv = nv[n["n"]][1]          # EPANET tank pressure = level (LPS: m)
            if lv <= n["min"] + 0.02 or lv >= n["max"] - 0.02:
                limit.add(int(math.ceil(t / rep)))
    return warn, limit


def epanet_reference(s, units):
    """leg C reference: the hand-written INP text in `units`, run by EPANET through ctypes, converted to SI with the own
    unit table; returns (Sim-like object on the report grid, INP text)"""
    import numpy as np
    # in three of the ten unit systems the valve settings are given the other legal way: a numeric [STATUS] entry
    txt = EN.inp_units(s, units, status_settings=units in ("GPM", "LPS", "CMH"))
    links = [l["n"] for l in s["links"]]
    nodes = [n["n"] for n in s["nodes"]]
    steps = EN.run_hydraulics(txt, links=links, nodes=nodes)
    f = EN.factors(units)
    rep = s["opts"]["rep"]
    grid = [st for st in steps if st[0] % rep == 0]
    out = Sim()
    out.times = [st[0] for st in grid]
    out.error = False
    out.warnings = []
    out.warn_step = next((int(st[0] // rep) for st in steps if st[1]), None)
    out.limit_steps = set()
    for st in steps:
        for n in s["nodes"]:
            if n["t"] == "tank":
                lv = st[3][n["n"]][1] * f["pres"]
                if lv <= n["min"] + 0.02 or lv >= n["max"] - 0.02:
                    out.limit_steps.add(int(math.ceil(st[0] / rep)))
    out.node = {"head": {}, "pressure": {}, "demand": {}}
    out.link = {"flowrate": {}, "status": {}}
    for n in s["nodes"]:
        nm = n["n"]
        out.node["head"][nm] = np.array([st[3][nm][0] * f["len"] for st in grid])
        pf = f["len"] if n["t"] == "tank" else f["pres"]        # EPANET reports a tank's 'pressure' in pressure units too
        out.node["pressure"][nm] = np.array([st[3][nm][1] * f["pres"] for st in grid])
        out.node["demand"][nm] = np.array([st[3][nm][2] * f["flow"] for st in grid])
    for l in links:
        out.link["flowrate"][l] = np.array([st[2][l][1] * f["flow"] for st in grid])
        out.link["status"][l] = np.array([1.0 if st[2][l][0] >= 1 else 0.0 for st in grid])
    return out, txt


def leg_c(s, units, counts, upto_hint=None):
    """reading the reference INP text and simulating it must give what EPANET computes for that text"""
    import wntr, warnings
    viol = []
    try:
        ref, txt = epanet_reference(s, units)
    except EN.EpanetError as e:
        counts["C_epanet_refuses"] = counts.get("C_epanet_refuses", 0) + 1
        return viol
    pth = "c03_ref_%d.inp" % os.getpid()
    with open(pth, "w") as fh:
        fh.write(txt)
    try:
        with warnings.catch_warnings():
            warnings.simplefilter("ignore")
            wn = wntr.network.read_inpfile(pth)
    except Exception as e:  # noqa
        return [{"key": "C:read-fails:%s" % type(e).__name__, "what": "read_inpfile fails on the reference INP text in %s: %s" % (units, str(e)[:120])}]
    finally:
        os.unlink(pth)
    upto = len(ref.times) if ref.warn_step is None else ref.warn_step
    rw = run_wntr(wn, s)
    counts["C_runs"] = counts.get("C_runs", 0) + 1
    if rw.error and len(rw.times) < upto:
        upto = len(rw.times)        # WNTR's own failures are judged by leg A
    msg, k = compare(s, rw, ref, "WNTR(read %s)" % units, "EPANET(text %s)" % units, upto, counts, limit_steps=ref.limit_steps)
    if msg and msg not in ("near-tie", "pdd-band", "reference-off-its-own-curve"):
        viol.append({"key": "C:reader:%s:%s" % (units, _cls(msg)), "what": "%s (deviations %s)" % (msg, devkey(s))})
    return viol


def devkey(s):
    d = s.get("id", {}).get("devs", [])
    # (pddmin is the pdd deviation with a non-zero minimum pressure: one demand-model class for the violation keys)
    return "+".join(sorted(("pdd" if x["k"] == "pddmin" else x["k"]) + (":" + x["vt"] if "vt" in x else "") for x in d)) or "base"


def run_case(s):
    viol, counts = [], {}
    wn = prepare(s)
    rw = run_wntr(wn, s)
    wn_e = prepare(s)
    try:
        re_, txt = run_epanet(wn_e, "LPS")
    except Exception as e:  # noqa
        return {"viol": [], "nontrivial": False, "outcome": "epanet-refuses", "counts": {"epanet_refuses": 1}}
    wstep, limit_steps = epanet_events(txt, s)
    upto = len(re_.times) if wstep is None else wstep
    if wstep is not None:
        counts["epanet_warning_truncations"] = 1
    dk = devkey(s)
    # ---- leg A
    # a pump that WNTR runs backwards (reported open with negative flow) is its own, narrow violation class
    back = None
    for l in s["links"]:
        if l["t"] in ("hpump", "ppump"):
            q, st = rw.link["flowrate"][l["n"]], rw.link["status"][l["n"]]
            if any(q[i] < -1e-5 and st[i] != 0 for i in range(min(len(rw.times), upto))):
                back = l["t"]
    if back:
        dk = "pump-runs-backwards:%s" % back
    if rw.error:
        nsolved = len(rw.times)
        if nsolved < upto:
            cls = "%s:%s" % (s.get("id", {}).get("skel"), _devfull(s)) if not back else dk
            w0 = (rw.warnings or [""])[0]
            # mechanism classes (narrow by cause, not by placement)
            wall = " ".join(rw.warnings)
            if nsolved == 0 and "did not converge" in wall:
                for l in s["links"]:
                    if l["t"] in ("PRV", "PSV", "FCV") and l["status"] == "ACTIVE" and len(re_.times) and float(re_.link["status"][l["n"]][0]) != 2.0:
                        cls = "initial-active-status-infeasible:%s" % l["t"]
            if not cls.startswith("initial-active") and "did not converge" in wall and any(l["t"] == "ppump" for l in s["links"]) and not back:
                cls = "power-pump:newton-iteration-limit"
            viol.append({"key": "A:wntr-fails:%s" % cls, "what": "EPANET solves %d warning-free report steps but WNTRSimulator stops after %d (%s)" % (upto, nsolved, rw.warnings[:1])})
            upto = nsolved
    if not viol:
        msg, k = compare(s, rw, re_, "WNTR", "EPANET", upto, counts, limit_steps=limit_steps)
        if msg and msg not in ("near-tie", "pdd-band", "reference-off-its-own-curve"):
            viol.append({"key": "A:differ:%s" % dk, "what": "%s (skeleton %s, deviations %s)" % (msg, s.get("id", {}).get("skel"), dk)})
        compared = k
    else:
        compared = 0
    # ---- leg B: the unit system of the INP file does not matter
    for u in UNITS:
        if u == "LPS":
            continue
        try:
            ru, txt_u = run_epanet(prepare(s), u)
        except Exception as e:  # noqa
            viol.append({"key": "B:epanet-fails:%s:%s" % (u, dk), "what": "EpanetSimulator fails with units %s although it runs in LPS: %s" % (u, str(e)[:100])})
            continue
        msg, k = compare(s, ru, re_, "EPANET[%s]" % u, "EPANET[LPS]", upto, counts)
        counts["unit_runs"] = counts.get("unit_runs", 0) + 1
        if msg and msg not in ("near-tie", "pdd-band", "reference-off-its-own-curve"):
            viol.append({"key": "B:units:%s:%s" % (u, _cls(msg)), "what": "%s (deviations %s)" % (msg, dk)})
    # ---- leg C: reading an INP text gives what EPANET computes for it (skipped when leg A already differs)
    if not any(v["key"].startswith("A:") for v in viol):
        for u in UNITS:
            viol += leg_c(s, u, counts)
    seen, out = set(), []
    for v in viol:
        if v["key"] not in seen:
            seen.add(v["key"]); out.append(v)
    return {"viol": out[:4], "nontrivial": bool(s.get("id", {}).get("devs")) and compared >= 2, "outcome": "cmp%d" % min(compared, 7), "counts": counts}


def _devfull(s):
    out = []
    for x in s.get("id", {}).get("devs", []):
        out.append("-".join(str(x[k]) for k in ("k", "l", "n", "vt", "setting") if k in x))
    return "+".join(sorted(out)) or "base"


def _cls(msg):
    return msg.split(" of ")[0].split(" at ")[0].replace(" ", "-")
