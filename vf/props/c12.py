"""C12 - writing a model to an EPANET INP file and reading it back preserves it; a second cycle changes nothing."""
import json, os, re
from .. import modelspace

ID = "C12"
LEVEL = "exploration"
RULE = ("modelspace (base model + every single deviation + the named element x control pairs; thorough: all compatible pairs on "
        "the units {GPM, LPS, IMGD}) x ten INP flow units x versions {2.2, 2.0}: wn2 = read(write(wn)); elements keyed by name, "
        "connectivity, every attribute, patterns, curves, demand lists, sources (as a multiset), time/hydraulic/quality/reaction/"
        "energy options, tags, vertices, coordinates, simple controls (as a multiset of condition + action) and rules (by name: "
        "condition text, actions, priority) compared within the precision of the written tokens; wn3 = read(write(wn2)) must equal "
        "wn2 and write(wn3) must equal write(wn2) as text (timestamp lines stripped).  non-trivial: >= 1 deviation from the base "
        "model or a non-SI unit system")
ASSUMPTIONS = ["numeric tolerance = 1e-5 relative (half a unit of the sixth significant digit the writer uses in controls and rules) plus the absolute quantum of fixed-point fields (patterns 5e-7, curve points 1e-6 in file units, energy prices 5e-5 $/kWh)",
               "outside the statement and not compared: pattern interpolation, per-junction PDD parameters, leaks, empty patterns, typed curves nothing refers to, priority of simple controls (the [CONTROLS] section has no place for it), report/graphics/user options, model name",
               "version 2.0 files: demand model and PDD options, headerror, flowchange are not compared"]

UNITS = ["CFS", "GPM", "MGD", "IMGD", "AFD", "LPS", "LPM", "MLD", "CMH", "CMD"]
V22_ONLY = {"demand_model", "minimum_pressure", "required_pressure", "pressure_exponent", "headerror", "flowchange"}


def cases(tier):
    out = []
    inp_ok = lambda n: n not in modelspace.NOT_IN_INP
    for s in modelspace.enumerate_specs(1, keep=inp_ok):
        for u in UNITS:
            for v in (2.2, 2.0):
                if tier == "quick" and v == 2.0 and u not in ("GPM", "LPS"):
                    continue
                out.append({"devs": s["devs"], "units": u, "version": v})
    # the same models written AFTER a WNTRSimulator run: the file must describe the definition, not the state the run left behind
    for s in modelspace.enumerate_specs(1, keep=inp_ok):
        for u in (("LPS",) if tier == "quick" else ("LPS", "GPM")):
            out.append({"devs": s["devs"], "units": u, "version": 2.2, "presim": True})
    if tier == "thorough":
        seen = set(tuple(s["devs"]) for s in modelspace.enumerate_specs(1, keep=inp_ok))
        for s in modelspace.enumerate_specs(2, keep=inp_ok):
            if tuple(s["devs"]) in seen:
                continue
            for u in ("GPM", "LPS", "IMGD"):
                out.append({"devs": s["devs"], "units": u, "version": 2.2})
    return out


# ------------------------------------------------------------------------------------------------ comparison
REL = 1e-5


def feq(a, b, abs_tol=1e-9):
    return abs(a - b) <= REL * max(abs(a), abs(b)) + abs_tol


def strip_text(t):
    return "\n".join(l.rstrip() for l in t.splitlines() if not l.startswith("; Created") and not l.startswith("; Filename") and not l.startswith("; WNTR"))


NUM = re.compile(r"^[-+]?(\d+\.?\d*|\.\d+)([eE][-+]?\d+)?$")


def tok_eq(a, b):
    """control / rule texts compared token-wise: numbers within tolerance, clock strings exactly, words case-insensitively"""
    ta, tb = str(a).split(), str(b).split()
    if len(ta) != len(tb):
        return False
    for x, y in zip(ta, tb):
        if NUM.match(x) and NUM.match(y):
            if not feq(float(x), float(y)):
                return False
        elif x.upper() != y.upper():
            return False
    return True


class Cmp(object):
    def __init__(self, version, ordered):
        self.diffs = []
        self.version = version
        self.ordered = ordered

    def add(self, klass, what):
        self.diffs.append((klass, what))

    def val(self, path, klass, a, b, abs_tol=1e-9):
        if isinstance(a, bool) or isinstance(b, bool) or a is None or b is None or isinstance(a, str) or isinstance(b, str):
            if a != b:
                self.add(klass, "%s: %r -> %r" % (path, a, b))
        elif isinstance(a, (int, float)) and isinstance(b, (int, float)):
            if not feq(float(a), float(b), abs_tol):
                self.add(klass, "%s: %r -> %r" % (path, a, b))
        elif isinstance(a, (list, tuple)) and isinstance(b, (list, tuple)):
            if len(a) != len(b):
                self.add(klass, "%s: length %d -> %d (%r -> %r)" % (path, len(a), len(b), a, b))
            else:
                for i, (x, y) in enumerate(zip(a, b)):
                    self.val("%s[%d]" % (path, i), klass, x, y, abs_tol)
        elif isinstance(a, dict) and isinstance(b, dict):
            for k in sorted(set(a) | set(b)):
                self.val("%s/%s" % (path, k), klass, a.get(k, "<missing>"), b.get(k, "<missing>"), abs_tol)
        elif a != b:
            self.add(klass, "%s: %r -> %r" % (path, a, b))


def etype(e):
    return e.get("valve_type") or e.get("pump_type") or e.get("link_type") or e.get("node_type")


def compare(d1, d2, version, ordered=False, units="LPS"):
    """d1, d2: JSON-normalised to_dict() of the two models.  returns list of (class, message)."""
    c = Cmp(version, ordered)
    pats1 = {p["name"]: p for p in d1["patterns"] if p["multipliers"]}
    pats2 = {p["name"]: p for p in d2["patterns"] if p["multipliers"]}
    defined = set(pats1)
    emp = lambda x: None if (x in ("", None) or x not in defined) else x
    # [REACTIONS] coefficients are written with four decimals in file units: the SI quantum depends on order and unit family
    us = units in ("CFS", "GPM", "MGD", "IMGD", "AFD")
    ro = d1["options"].get("reaction", {})

    def rtol(k):
        if k == "bulk_coeff":
            f = 1.0 / 86400.0 if ro.get("bulk_order") == 1 else 1.0
        elif ro.get("wall_order") == 0:
            f = 1e-6 / (0.3048 ** 2 if us else 1.0) / 86400.0
        else:
            f = (0.3048 if us else 1.0) / 86400.0
        return 5.1e-5 * f
    for n in sorted(set(pats1) | set(pats2)):
        if n not in pats1 or n not in pats2:
            c.add("patterns:set", "pattern %s %s" % (n, "lost" if n in pats1 else "appeared"))
        else:
            c.val("patterns[%s]" % n, "patterns:multipliers", pats1[n]["multipliers"], pats2[n]["multipliers"], 5e-7)
    # curves: only those something refers to
    used = set()
    for e in d1["nodes"] + d1["links"]:
        for k in ("vol_curve_name", "pump_curve_name", "headloss_curve_name", "efficiency"):
            v = e.get(k)
            if isinstance(v, str):
                used.add(v)
            elif isinstance(v, dict) and v.get("name"):
                used.add(v["name"])
    cu1 = {x["name"]: x for x in d1["curves"]}
    cu2 = {x["name"]: x for x in d2["curves"]}
    for n in sorted(used):
        if n not in cu2:
            c.add("curves:set", "curve %s lost" % n)
            continue
        c.val("curves[%s]/curve_type" % n, "curves:type", cu1[n]["curve_type"], cu2[n]["curve_type"])
        c.val("curves[%s]/points" % n, "curves:points:%s" % cu1[n]["curve_type"], cu1[n]["points"], cu2[n]["points"], 1e-6)
    for sec in ("nodes", "links"):
        e1 = {e["name"]: e for e in d1[sec]}
        e2 = {e["name"]: e for e in d2[sec]}
        if set(e1) != set(e2):
            c.add("%s:set" % sec, "%s %s -> %s" % (sec, sorted(e1), sorted(e2)))
        if ordered and [e["name"] for e in d1[sec]] != [e["name"] for e in d2[sec]]:
            c.add("%s:order" % sec, "order %s -> %s" % ([e["name"] for e in d1[sec]], [e["name"] for e in d2[sec]]))
        for n in sorted(set(e1) & set(e2)):
            a, b = e1[n], e2[n]
            t = etype(a)
            for k in sorted(set(a) | set(b)):
                if k in ("leak", "leak_area", "leak_discharge_coeff", "minimum_pressure", "required_pressure", "pressure_exponent"):
                    continue
                if sec == "links" and k == "initial_quality":
                    continue        # [QUALITY] holds node qualities only: the INP format has no place for it
                if k == "overflow" and version == 2.0:
                    continue        # the overflow column of [TANKS] is EPANET 2.2-specific
                if k in ("base_demand", "demand_pattern", "demand_category"):
                    continue        # derived from the demand list, compared below
                va, vb = a.get(k, "<missing>"), b.get(k, "<missing>")
                klass = "%s:%s:%s" % (sec, t, k)
                path = "%s[%s]/%s" % (sec, n, k)
                if k == "demand_timeseries_list":
                    la = [x for x in (va or [])]
                    lb = [x for x in (vb or [])]
                    # a junction without demands is written as one zero demand
                    za = [x for x in la if not (x["base_val"] == 0 and len(la) <= 1)]
                    zb = [x for x in lb if not (x["base_val"] == 0 and len(lb) <= 1)]
                    if len(za) != len(zb):
                        c.add(klass, "%s: %r -> %r" % (path, la, lb))
                    else:
                        for i, (x, y) in enumerate(zip(za, zb)):
                            c.val(path + "[%d]/base_val" % i, klass, x["base_val"], y["base_val"], 1e-12)
                            c.val(path + "[%d]/pattern_name" % i, klass + ":pattern", emp(x["pattern_name"]), emp(y["pattern_name"]))
                            c.val(path + "[%d]/category" % i, klass + ":category", x["category"] or None, y["category"] or None)
                elif k in ("head_pattern_name", "speed_pattern_name", "energy_pattern"):
                    c.val(path, klass, emp(va), emp(vb))
                elif k == "efficiency":
                    na = va.get("name") if isinstance(va, dict) else va
                    nb = vb.get("name") if isinstance(vb, dict) else vb
                    c.val(path, klass, na, nb)
                elif k == "energy_price":
                    c.val(path, klass, va, vb, 5e-5 / 3.6e6)
                elif k == "coordinates" or k == "vertices":
                    c.val(path, klass, va, vb, 1e-6)
                elif k == "initial_status":
                    c.val(path, klass, str(va).upper(), str(vb).upper())
                elif k in ("bulk_coeff", "wall_coeff"):
                    c.val(path, klass, va, vb, rtol(k))
                elif k == "mixing_model":
                    # None and the single-compartment default denote the same model in an INP file
                    c.val(path, klass, va or "Mix1", vb or "Mix1")
                else:
                    c.val(path, klass, va, vb)
    # sources: INP files store them without names
    key = lambda s: (s["node_name"], s["source_type"], emp(s["pattern"]) or "")
    s1 = sorted(d1["sources"], key=key)
    s2 = sorted(d2["sources"], key=key)
    if [key(s) for s in s1] != [key(s) for s in s2]:
        c.add("sources:set", "sources %s -> %s" % ([key(s) for s in s1], [key(s) for s in s2]))
    else:
        for a, b in zip(s1, s2):
            c.val("sources[%s]/strength" % a["node_name"], "sources:strength:%s" % a["source_type"], a["strength"], b["strength"], 1e-15)
    # options
    for grp in ("time", "hydraulic", "quality", "reaction", "energy"):
        o1, o2 = d1["options"].get(grp, {}), d2["options"].get(grp, {})
        for k in sorted(set(o1) | set(o2)):
            if k in ("pattern_interpolation", "inpfile_units", "inpfile_pressure_units"):
                continue
            if version == 2.0 and grp == "hydraulic" and k in V22_ONLY:
                continue
            va, vb = o1.get(k, "<missing>"), o2.get(k, "<missing>")
            if k in ("pattern", "global_pattern"):
                va, vb = emp(va), emp(vb)
            tol = 1e-9
            if k == "global_price":
                tol = 5e-5 / 3.6e6
            if grp == "reaction" and k in ("bulk_coeff", "wall_coeff"):
                tol = rtol(k)
            if grp == "hydraulic" and k in ("minimum_pressure", "required_pressure"):
                tol = 0.0051     # written with two decimals in psi or m
            c.val("options/%s/%s" % (grp, k), "options:%s:%s" % (grp, k), va, vb, tol)
    # controls
    simple = lambda d: sorted(((x["condition"], x["then_actions"][0]) for x in d["controls"] if x["type"] == "simple"))
    a, b = simple(d1), simple(d2)
    if len(a) != len(b):
        c.add("controls:count", "simple controls %s -> %s" % (a, b))
    else:
        rest = list(b)
        for x in a:
            m = [y for y in rest if tok_eq(x[0], y[0]) and tok_eq(x[1], y[1])]
            if not m:
                c.add("controls:simple:%s" % _ctl_class(x), "simple control %r not found among %r" % (x, rest))
            else:
                rest.remove(m[0])
    r1 = {x["name"]: x for x in d1["controls"] if x["type"] == "rule"}
    r2 = {x["name"]: x for x in d2["controls"] if x["type"] == "rule"}
    if set(r1) != set(r2):
        c.add("rules:set", "rules %s -> %s" % (sorted(r1), sorted(r2)))
    for n in sorted(set(r1) & set(r2)):
        x, y = r1[n], r2[n]
        if not tok_eq(x["condition"], y["condition"]):
            c.add("rules:condition", "rule %s condition %r -> %r" % (n, x["condition"], y["condition"]))
        for part in ("then_actions", "else_actions"):
            pa, pb = x.get(part) or [], y.get(part) or []
            if len(pa) != len(pb) or not all(tok_eq(p, q) for p, q in zip(pa, pb)):
                c.add("rules:%s" % part, "rule %s %s %r -> %r" % (n, part, pa, pb))
        if x.get("priority") != y.get("priority"):
            c.add("rules:priority", "rule %s priority %r -> %r" % (n, x.get("priority"), y.get("priority")))
    return c.diffs


def _ctl_class(x):
    cond, actn = x
    w = cond.split()
    kind = "time" if w[0].upper() == "SYSTEM" else w[0].lower() + "-" + w[2].lower()
    a = actn.split()
    return "%s:%s-%s" % (kind, a[0].lower(), a[2].lower())


def run_case(s):
    import wntr, tempfile, warnings
    warnings.simplefilter("ignore")
    wn = modelspace.build(s)
    viol = []
    nt = bool(s["devs"]) or s["units"] not in ("LPS",)
    d1 = json.loads(json.dumps(wntr.network.to_dict(wn), default=str))
    tmp = tempfile.mkdtemp(dir=".")
    presim = "no"
    if s.get("presim"):
        try:
            wntr.sim.WNTRSimulator(wn).run_sim()
            presim = "ran"
        except Exception as e:  # noqa  (PBV / GPV are refused, some models do not converge: the model is still a model)
            presim = "failed:" + type(e).__name__

    def cycle(w, i):
        p = os.path.join(tmp, "m%d.inp" % i)
        wntr.network.write_inpfile(w, p, units=s["units"], version=s["version"])
        txt = open(p).read()
        return wntr.network.read_inpfile(p), txt
    try:
        try:
            wn2, t1 = cycle(wn, 1)
        except Exception as e:  # noqa
            import traceback
            return {"viol": [{"key": "crash:first-cycle:%s" % type(e).__name__, "what": "write/read raised %s: %s" % (type(e).__name__, str(e)[:200]),
                              "detail": traceback.format_exc()[-1500:]}], "nontrivial": nt}
        d2 = json.loads(json.dumps(wntr.network.to_dict(wn2), default=str))
        diffs = compare(d1, d2, s["version"], units=s["units"])

        def shape(c):
            """nesting of a rule condition: the rule text has no parentheses, so the tree may come back regrouped"""
            if hasattr(c, "_condition_1"):
                return [type(c).__name__, shape(c._condition_1), shape(c._condition_2)]
            return "leaf"
        for name, ctl in wn.controls():
            if name in wn2.control_name_list and shape(ctl.condition) != shape(wn2.get_control(name).condition):
                diffs.append(("controls:condition:regrouped", "rule %s: condition tree %s comes back as %s" % (name, shape(ctl.condition), shape(wn2.get_control(name).condition))))
        seen = set()
        for k, w in diffs:
            if k not in seen:
                seen.add(k)
                viol.append({"key": "first:%s" % k, "what": "after write/read in %s (v%s): %s" % (s["units"], s["version"], w)})
        try:
            wn3, t2 = cycle(wn2, 2)
            d3 = json.loads(json.dumps(wntr.network.to_dict(wn3), default=str))
            seen = set()
            for k, w in compare(d2, d3, s["version"], ordered=True, units=s["units"]):
                if k not in seen:
                    seen.add(k)
                    viol.append({"key": "second:%s" % k, "what": "a second write/read cycle in %s changes %s" % (s["units"], w)})
            p3 = os.path.join(tmp, "m3.inp")
            wntr.network.write_inpfile(wn3, p3, units=s["units"], version=s["version"])
            t3 = open(p3).read()
            if strip_text(t3) != strip_text(t2):
                a, b = strip_text(t2).splitlines(), strip_text(t3).splitlines()
                dl = [(x, y) for x, y in zip(a, b) if x != y][:2] or [("<%d lines>" % len(a), "<%d lines>" % len(b))]
                sec = _section_of(a, dl[0][0])
                viol.append({"key": "second:text:%s" % sec, "what": "write(wn3) differs from write(wn2) in %s: %r -> %r" % (s["units"], dl[0][0], dl[0][1])})
            # a model that CAME from a file is written again in another unit system (other flow units; for a chemical model also
            # the other mass units): nothing remembered from the first file may leak into the second one
            other = "GPM" if s["units"] != "GPM" else "LPS"
            if str(wn2.options.quality.parameter).upper() == "CHEMICAL":
                wn2.options.quality.inpfile_units = "ug/L" if "ug" not in str(wn2.options.quality.inpfile_units).lower() else "mg/L"
            d2b = json.loads(json.dumps(wntr.network.to_dict(wn2), default=str))
            p4 = os.path.join(tmp, "m4.inp")
            wntr.network.write_inpfile(wn2, p4, units=other, version=s["version"])
            d4 = json.loads(json.dumps(wntr.network.to_dict(wntr.network.read_inpfile(p4)), default=str))
            seen = set()
            for k, w in compare(d2b, d4, s["version"], units=other):
                if k not in seen:
                    seen.add(k)
                    viol.append({"key": "rewrite-other-units:%s" % k, "what": "model read from a %s file, written again in %s%s: %s" % (
                        s["units"], other, " with the other mass units" if str(wn2.options.quality.parameter).upper() == "CHEMICAL" else "", w)})
        except Exception as e:  # noqa
            import traceback
            viol.append({"key": "crash:second-cycle:%s" % type(e).__name__, "what": "second write/read raised %s: %s" % (type(e).__name__, str(e)[:200]),
                         "detail": traceback.format_exc()[-1500:]})
    finally:
        import shutil
        shutil.rmtree(tmp, ignore_errors=True)
    if s.get("presim"):
        for v in viol:
            v["key"] = "after-run:" + v["key"]; v["what"] = "model simulated before writing: " + v["what"]
    return {"viol": viol[:8], "nontrivial": nt, "outcome": ("ok" if not viol else "diff") + (":presim-" + presim.split(":")[0] if s.get("presim") else ""), "counts": {"cycles": 2}}


def _section_of(lines, line):
    sec = "?"
    for l in lines:
        if l.startswith("["):
            sec = l.strip()
        if l == line:
            return sec
    return sec
