"""C13 - dictionary and JSON representations round-trip the model exactly."""
import copy, glob, json, os
from .. import modelspace

ID = "C13"
LEVEL = "exploration"
RULE = ("modelspace: 5-node base model + every deviation of the catalogue (all element types incl. PBV/GPV, statuses, settings, "
        "speed patterns, energy attributes, vertices, tags, demand categories, every source type, every option group, simple "
        "controls on status/setting/speed with TIME/CLOCKTIME/level/pressure conditions, rules with AND/OR/ELSE/priority and "
        "node/link attribute conditions) singly, in the named element x control pairs and (thorough) in all compatible pairs, plus "
        "every example INP network read through the INP reader; paths from_dict(to_dict), read_json(write_json), "
        "from_dict(d, append=empty model), and a second round trip.  oracle: JSON-normalised dictionaries equal (tuples -> lists, "
        "empty pattern names, a demand-less junction gains one zero demand).  non-trivial: a model with >= 1 deviation from the "
        "base model, or an example network")
ASSUMPTIONS = ["only the three normalisations the statement names are applied", "the 'version' entry is compared as well (same library)"]


def cases(tier):
    specs = modelspace.enumerate_specs(1 if tier == "quick" else 2)
    # the same single-deviation models serialised AFTER a WNTRSimulator run (the dictionary describes the definition)
    specs += [dict(x, presim=True) for x in modelspace.enumerate_specs(1)]
    ex = sorted(glob.glob(os.path.join(os.environ.get("VERIF_REPO", "/repo"), "examples", "networks", "*.inp")))
    for f in ex:
        big = os.path.getsize(f) > 400000
        if tier == "quick" and big:
            continue
        specs.append({"inp": os.path.basename(f)})
    return specs


def norm(d, demandless=()):
    d = json.loads(json.dumps(d, default=str))
    defined = set(p_.get("name") for p_ in d.get("patterns", []))
    # "empty pattern name": None, "" or a name (the default pattern label) that denotes no pattern of the model
    empty = lambda x: x in ("", None) or x not in defined
    for n in d.get("nodes", []):
        if n.get("node_type") == "Junction":
            dl = n.get("demand_timeseries_list")
            if not dl:
                n["demand_timeseries_list"] = [{"base_val": 0.0, "pattern_name": None, "category": None}]
                n["base_demand"] = 0.0
                n["demand_pattern"] = None
                n["demand_category"] = None
            for e in n["demand_timeseries_list"]:
                # the one zero demand a demand-less junction returns with carries whatever default pattern applies
                if empty(e.get("pattern_name")) or n.get("name") in demandless:
                    e["pattern_name"] = None
            if empty(n.get("demand_pattern")) or n.get("name") in demandless:
                n["demand_pattern"] = None
        if "head_pattern_name" in n and empty(n.get("head_pattern_name")):
            n["head_pattern_name"] = None
    for l in d.get("links", []):
        if "speed_pattern_name" in l and empty(l.get("speed_pattern_name")):
            l["speed_pattern_name"] = None
    for s in d.get("sources", []):
        if empty(s.get("pattern")):
            s["pattern"] = None
    return d


def first_diff(a, b, path=""):
    if type(a) != type(b) and not (isinstance(a, (int, float)) and isinstance(b, (int, float)) and not isinstance(a, bool) and not isinstance(b, bool)):
        return path, a, b
    if isinstance(a, dict):
        for k in sorted(set(a) | set(b)):
            if k not in a or k not in b:
                return path + "/" + k, a.get(k, "<missing>"), b.get(k, "<missing>")
            r = first_diff(a[k], b[k], path + "/" + k)
            if r:
                return r
        return None
    if isinstance(a, list):
        if len(a) != len(b):
            return path + "[len]", len(a), len(b)
        for i, (x, y) in enumerate(zip(a, b)):
            lab = x.get("name", i) if isinstance(x, dict) else i
            r = first_diff(x, y, "%s[%s]" % (path, lab))
            if r:
                return r
        return None
    if a != b:
        return path, a, b
    return None


def klass(path, d0):
    """stable violation class: section + element type + attribute"""
    import re
    m = re.match(r"/(nodes|links)\[([^\]]*)\]/(.*)", path)
    if m:
        sec, name, attr = m.groups()
        el = [e for e in d0[sec] if str(e.get("name")) == name]
        typ = (el[0].get("valve_type") or el[0].get("link_type") or el[0].get("node_type")) if el else "?"
        if typ in ("PRV", "PSV", "PBV", "FCV", "TCV", "GPV"):
            typ = "Valve"
        return "%s:%s:%s" % (sec, typ, re.sub(r"\[.*", "", attr))
    return re.sub(r"\[[^\]]*\]", "[]", path).strip("/")


def run_case(s):
    import wntr, tempfile, warnings
    warnings.simplefilter("ignore")
    if "inp" in s:
        wn = wntr.network.WaterNetworkModel(os.path.join(os.environ.get("VERIF_REPO", "/repo"), "examples", "networks", s["inp"]))
    else:
        wn = modelspace.build(s)
    if s.get("presim"):
        try:
            wntr.sim.WNTRSimulator(wn).run_sim()
        except Exception:  # noqa  (refused valve types, non-convergence: the model is still a model)
            pass
    d0 = wntr.network.to_dict(wn)
    demandless = set(n["name"] for n in d0["nodes"] if n.get("node_type") == "Junction" and not n.get("demand_timeseries_list"))
    n0 = norm(d0, demandless)
    viol = []

    def judge(tag, make):
        try:
            wn2 = make()
            n2 = norm(wntr.network.to_dict(wn2), demandless)
        except Exception as e:  # noqa
            import traceback
            fn = traceback.extract_tb(e.__traceback__)[-1].name        # innermost function: a narrow, stable class
            viol.append({"key": "%s:crash:%s:%s" % (tag, type(e).__name__, fn), "what": "%s raised %s in %s: %s" % (tag, type(e).__name__, fn, str(e)[:150]),
                         "detail": traceback.format_exc()[-1200:]})
            return None
        r = first_diff(n0, n2)
        if r and r[0].endswith("/condition") and isinstance(r[1], str) and isinstance(r[2], str) and r[1].split() == r[2].split():
            # same clauses, other spacing: the rule text has no parentheses, the condition tree was regrouped on reading
            viol.append({"key": "%s:controls[]/condition:regrouped" % tag, "what": "%s: %s is %r in the original dictionary and %r after the round trip (the nested condition is regrouped)" % (tag, r[0], r[1], r[2])})
        elif r:
            viol.append({"key": "%s:%s" % (tag, klass(r[0], n0)), "what": "%s: %s is %r in the original dictionary and %r after the round trip" % (tag, r[0], r[1], r[2])})
        return wn2
    jd = json.loads(json.dumps(d0, default=str))
    wn2 = judge("from_dict", lambda: wntr.network.from_dict(copy.deepcopy(jd)))

    def via_json():
        fd, p = tempfile.mkstemp(suffix=".json", dir=".")
        os.close(fd)
        try:
            wntr.network.write_json(wn, p)
            return wntr.network.read_json(p)
        finally:
            os.unlink(p)
    # the caller's dictionary is an input, not scratch space: the same object must serve a second call (create, then append)
    d_in = copy.deepcopy(jd)
    try:
        wntr.network.from_dict(d_in)
        r = first_diff(norm(jd, demandless), norm(d_in, demandless))
        if r:
            viol.append({"key": "argument-modified:%s" % klass(r[0], n0), "what": "from_dict changed the dictionary it was given: %s was %r and is %r afterwards" % r})
        else:
            judge("append-same-dict", lambda: wntr.network.from_dict(d_in, append=wntr.network.WaterNetworkModel()))
    except Exception:  # noqa - crashes are reported by the from_dict leg above
        pass
    judge("json", via_json)
    judge("append", lambda: wntr.network.from_dict(copy.deepcopy(jd), append=wntr.network.WaterNetworkModel()))
    if wn2 is not None and not viol:
        # a second round trip changes nothing further
        d2 = json.loads(json.dumps(wntr.network.to_dict(wn2), default=str))
        wn3 = wntr.network.from_dict(copy.deepcopy(d2))
        r = first_diff(norm(d2, demandless), norm(wntr.network.to_dict(wn3), demandless))
        if r:
            viol.append({"key": "second-trip:%s" % klass(r[0], norm(d2)), "what": "second round trip changes %s from %r to %r" % r})
    seen, out = set(), []
    for v in viol:
        if v["key"] not in seen:
            seen.add(v["key"]); out.append(v)
    return {"viol": out, "nontrivial": bool(s.get("inp") or s.get("devs")), "outcome": "ok" if not out else "diff",
            "counts": {"round_trips": 4}}
