"""C05 - reported states are consistent with every conditional simple control (invariant on every reported step)."""
import itertools, math
from ..net import *

ID = "C05"
LEVEL = "exploration"
RULE = ("skeletons pumpfeed (R-pump-J1-p2-J2-p3-T), twosrc (R-p1-J1-p2-J2-p3-T), vctank (twosrc with a non-prismatic volume-curve tank; single controls), valve (p2 = TCV) and deadend (twosrc + dead-end J3 that one control cuts off while another watches its pressure) with a small tank (diameter "
        "5 m) x demand patterns {fill, drain, fill-then-drain, saw-tooth} x ALL single simple controls and the sets of two (quick: "
        "hysteresis pairs and same-target pairs; thorough: ALL pairs, plus triples on a reduced alphabet) from: LINK x OPEN|CLOSED IF "
        "TANK T ABOVE|BELOW L, L in {just inside min, low, mid, high, just inside max}; IF JUNCTION J2 ABOVE|BELOW p; TCV SETTING s "
        "IF ...; targets: source link (pump / pipe), middle pipe (plain and CV), tank link; priorities {3, 5} for pairs; hydraulic "
        "step {1 h, 15 min}; 'ALL' reporting, 12 h.  invariant per reported step and control whose condition is robustly true "
        "(|value - threshold| > 1e-4): commanded status / setting is the reported one (exemptions as in the statement); first "
        "crossing of a tank-level threshold within 2 s of tank flow.  non-trivial: some control's condition changes truth value "
        "during the run")
ASSUMPTIONS = ["runs that do not converge are excluded and counted (the statement quantifies over runs that converge)",
               "exemptions: CV pipe / pump reporting zero flow against an adverse head difference; a link adjacent to a tank that is within the two-second band of a level limit; a conflicting control of equal or higher priority whose condition is robustly true at that step"]

H = 3600
DEM = {"fill": [0.2, 0.2, 0.3, 0.2], "drain": [2.2, 2.0, 2.4, 2.1], "fill_drain": [0.2, 0.2, 0.2, 2.4, 2.4, 2.4], "saw": [0.2, 2.4, 0.3, 2.2]}
DEM_PAIRS = ("fill_drain", "saw")
LEVELS = [0.6, 1.5, 3.0, 4.5, 5.9]
PRESS = [22.0, 29.0]
TMIN, TMAX = 0.5, 6.0


def skeleton(name, pat, hyd, cv=False):
    tank = T("T", elev=30.0, init=3.0, mn=TMIN, mx=TMAX, diam=5.0)
    if name == "pumpfeed":
        s = spec([R("R", 10.0), J("J1", 0.0, [[0.0, None, None]]), J("J2", 5.0, [[0.02, "D", None]]), tank],
                 [HP("src", "R", "J1", [[0.03, 35.0]]), P("p2", "J1", "J2", cv=cv), P("p3", "J2", "T")])
    elif name == "twosrc":
        s = spec([R("R", 38.0), J("J1", 0.0, [[0.0, None, None]]), J("J2", 5.0, [[0.02, "D", None]]), tank],
                 [P("src", "R", "J1"), P("p2", "J1", "J2", cv=cv), P("p3", "J2", "T")])
    elif name == "deadend":
        # a dead-end junction J3 that another control can cut off: its reported pressure is then 0
        s = spec([R("R", 38.0), J("J1", 0.0, [[0.0, None, None]]), J("J2", 5.0, [[0.02, "D", None]]), tank, J("J3", 2.0, [[0.004, None, None]])],
                 [P("src", "R", "J1"), P("p2", "J1", "J2", cv=cv), P("p3", "J2", "T"), P("p4", "J2", "J3", L=200.0, D=0.2)])
    elif name == "vctank":
        # twosrc with a tank whose volume curve is not prismatic (cross-sections 20, 60, 47 m2), elevation 30 m
        tank = dict(tank, vcurve=[[0.0, 0.0], [2.0, 40.0], [4.0, 160.0], [7.0, 300.0]])
        s = spec([R("R", 38.0), J("J1", 0.0, [[0.0, None, None]]), J("J2", 5.0, [[0.02, "D", None]]), tank],
                 [P("src", "R", "J1"), P("p2", "J1", "J2", cv=cv), P("p3", "J2", "T")])
    else:
        s = spec([R("R", 38.0), J("J1", 0.0, [[0.0, None, None]]), J("J2", 5.0, [[0.02, "D", None]]), tank],
                 [P("src", "R", "J1"), V("p2", "J1", "J2", "TCV", 2.0), P("p3", "J2", "T")])
    s["patterns"] = {"D": DEM[pat]}
    s["opts"] = OPTS(dur=12 * H, hyd=hyd, rep="ALL")
    return s


def control_alphabet(skel):
    A = []
    targets = ["src", "p2", "p3"]
    for tgt, val in itertools.product(targets, ("OPEN", "CLOSED")):
        for rel in (">", "<"):
            for L in LEVELS:
                A.append({"kind": "level", "node": "T", "rel": rel, "thr": L, "link": tgt, "value": val})
            for p in PRESS:
                A.append({"kind": "pressure", "node": "J2", "rel": rel, "thr": p, "link": tgt, "value": val})
    if skel == "valve":
        for rel, L in ((">", 4.5), ("<", 1.5)):
            A.append({"kind": "level", "node": "T", "rel": rel, "thr": L, "link": "p2", "attr": "setting", "value": 40.0})
        A.append({"kind": "pressure", "node": "J2", "rel": "<", "thr": 29.0, "link": "p2", "attr": "setting", "value": 0.5})
    return A


def chatter(a, b):
    """two controls on one link with opposite commands and conditions that flip at the same tank level: no hysteresis, the
    link toggles every few seconds once the level sits on the threshold (a run of thousands of partial steps) - ill-posed
    control sets, kept out of the space"""
    return (a["link"] == b["link"] and a["kind"] == b["kind"] == "level" and a["thr"] == b["thr"] and a["rel"] != b["rel"]
            and (a.get("attr", "status"), a["value"]) != (b.get("attr", "status"), b["value"]))


def cases(tier):
    out = []
    for skel, pat in itertools.product(("pumpfeed", "twosrc", "valve", "deadend", "vctank"), DEM):
        if skel == "deadend":
            # isolation x pressure control: one control cuts the dead end off, another one watches its pressure
            cut = [{"kind": "level", "node": "T", "rel": rel, "thr": L, "link": "p4", "value": "CLOSED"} for rel, L in ((">", 3.5), (">", 4.5), ("<", 2.5))]
            cut += [{"kind": "level", "node": "T", "rel": "<", "thr": 5.9, "link": "p4", "value": "CLOSED"}]        # true from the start
            watch = [{"kind": "pressure", "node": "J3", "rel": rel, "thr": 15.0, "link": tgt, "value": val}
                     for rel in ("<", ">") for tgt in ("src", "p2") for val in ("CLOSED", "OPEN")]
            sets = [[a, b] for a in cut for b in watch] + [[b] for b in watch]
            for cs in sets:
                s2 = skeleton(skel, pat, H)
                s2["controls"] = [dict(c, prio=3, name="c%d" % i) for i, c in enumerate(cs)]
                s2["id"] = {"skel": skel, "pat": pat, "hyd": H, "cv": False, "controls": s2["controls"]}
                out.append(s2)
            continue
        A = control_alphabet(skel)
        sets = [[a] for a in A]
        pairs = []
        for a, b in (itertools.combinations(A, 2) if skel != "vctank" or tier == "thorough" else ()):
            if skel == "vctank" and not (a["link"] == b["link"] and a["kind"] == b["kind"] == "level" and a["value"] != b["value"] and a["rel"] != b["rel"]):
                continue            # volume-curve tank: singles, and (thorough) hysteresis pairs only
            same_t = a["link"] == b["link"]
            hyst = same_t and a["kind"] == b["kind"] == "level" and a["value"] != b["value"] and a["rel"] != b["rel"]
            if tier == "quick":
                if not hyst:
                    continue
                hi = a if a["rel"] == ">" else b
                lo = b if hi is a else a
                if lo["thr"] >= hi["thr"]:
                    continue
            if tier == "thorough" and not hyst and pat not in DEM_PAIRS:
                continue                      # all non-hysteresis pairs under two of the four demand patterns (run-time bound)
            if chatter(a, b):
                continue
            pairs.append([a, b])
        sets += pairs
        if tier == "thorough":
            B = [a for a in A if a["kind"] == "level" and a["thr"] in (1.5, 4.5)] + [a for a in A if a["kind"] == "pressure" and a["thr"] == 29.0 and a["link"] != "p3"]
            for tr in itertools.combinations(B, 3):
                if len(set(x["link"] for x in tr)) >= 2 and not any(chatter(x, y) for x, y in itertools.combinations(tr, 2)):
                    sets.append(list(tr))
        # a status control and a setting / speed control on the same link with every order of two low priorities: the
        # higher-priority command must be the reported one (a setting or speed command implies Active / Open)
        SP = []
        if skel in ("valve", "pumpfeed"):
            tgt = "p2" if skel == "valve" else "src"
            if skel == "valve":
                setc = [a for a in A if a.get("attr") == "setting"]
            else:
                setc = [{"kind": "level", "node": "T", "rel": rel, "thr": L, "link": "src", "attr": "base_speed", "value": 1.0} for rel, L in ((">", 1.5), ("<", 4.5))] + \
                       [{"kind": "pressure", "node": "J2", "rel": "<", "thr": 29.0, "link": "src", "attr": "base_speed", "value": 1.0}]
            stat = [a for a in A if a["link"] == tgt and not a.get("attr") and (a["thr"] in (1.5, 4.5, 29.0) or tier == "thorough")]
            for a in stat:
                for b in setc:
                    if chatter(a, b):
                        continue
                    for pr in ((3, 3), (2, 1), (1, 2)) + (((5, 3), (0, 3)) if tier == "thorough" else ()):
                        SP.append(([a, b], pr))
        for cs, pr in SP:
            if tier == "thorough" and pat not in DEM_PAIRS and pr not in ((2, 1), (1, 2)):
                continue
            s = skeleton(skel, pat, H)
            s["controls"] = [dict(c, prio=p, name="c%d" % i) for i, (c, p) in enumerate(zip(cs, pr))]
            s["id"] = {"skel": skel, "pat": pat, "hyd": H, "cv": False, "controls": s["controls"]}
            out.append(s)
        # conflicting controls on one link whose conditions overlap, under priorities that include the lowest one (0):
        # wherever both hold, the higher priority decides
        if skel in ("twosrc", "pumpfeed") and pat in DEM_PAIRS:
            B2 = [a for a in A if not a.get("attr") and a["thr"] in (1.5, 4.5, 29.0)]
            for a, b in itertools.combinations(B2, 2):
                if a["link"] != b["link"] or a["value"] == b["value"] or chatter(a, b):
                    continue
                for pr in ((0, 1), (1, 0), (0, 3)) + (((3, 0), (2, 5), (6, 0)) if tier == "thorough" else ()):
                    s = skeleton(skel, pat, H)
                    s["controls"] = [dict(c, prio=p_, name="c%d" % i) for i, (c, p_) in enumerate(zip((a, b), pr))]
                    s["id"] = {"skel": skel, "pat": pat, "hyd": H, "cv": False, "controls": s["controls"]}
                    out.append(s)
        # rule time step of one second: EVERY threshold crossing then coincides with a rule evaluation instant (the two
        # scheduling paths of the presolve loop meet); single level controls and hysteresis pairs
        if skel in ("twosrc", "pumpfeed"):
            for cs in sets:
                hyst2 = len(cs) == 2 and cs[0]["link"] == cs[1]["link"] and cs[0]["value"] != cs[1]["value"] and cs[0]["rel"] != cs[1]["rel"]
                if all(c["kind"] == "level" for c in cs) and (len(cs) == 1 or (tier == "thorough" and hyst2)):
                    s = skeleton(skel, pat, H)
                    s["opts"]["rule"] = 1
                    s["controls"] = [dict(c, prio=3, name="c%d" % i) for i, c in enumerate(cs)]
                    s["id"] = {"skel": skel, "pat": pat, "hyd": H, "cv": False, "controls": s["controls"], "rule_step": 1}
                    out.append(s)
        # the tank starts a hair (0.3 / 0.6 mm) on the false side of the threshold of a single CLOSED control: the crossing falls
        # within the first second(s) after the accepted solution at time 0 (small tank: its level moves ~1 mm/s)
        if skel in ("twosrc", "pumpfeed") and pat in ("fill", "drain"):
            for a in A:
                if a["kind"] != "level" or a["value"] != "CLOSED" or a["thr"] in (LEVELS[0], LEVELS[-1]) or (a["rel"] == ">") != (pat == "fill"):
                    continue
                for off in (3e-4, 6e-4, 2e-3):
                    s = skeleton(skel, pat, H)
                    tk = node(s, "T")
                    tk["diam"] = 3.0
                    tk["init"] = a["thr"] - off if a["rel"] == ">" else a["thr"] + off
                    s["controls"] = [dict(a, prio=3, name="c0")]
                    s["id"] = {"skel": skel, "pat": pat, "hyd": H, "cv": False, "controls": s["controls"], "init_hair": off}
                    out.append(s)
        # the tank-level threshold written on the tank's 'pressure' / 'head' attribute instead of 'level' (API spellings)
        if skel in ("twosrc", "pumpfeed"):
            for a in A:
                if a["kind"] != "level" or a["thr"] in (LEVELS[0], LEVELS[-1]) or a.get("attr"):
                    continue
                for src in ("pressure", "head"):
                    s = skeleton(skel, pat, H)
                    s["controls"] = [dict(a, prio=3, name="c0", src=src)]
                    s["id"] = {"skel": skel, "pat": pat, "hyd": H, "cv": False, "controls": s["controls"], "spelled_on": src}
                    out.append(s)
        # a leaking tank (the leak is part of the tank's net inflow): single level controls and hysteresis pairs on it
        if skel in ("twosrc", "pumpfeed"):
            for cs in sets:
                hyst2 = len(cs) == 2 and cs[0]["link"] == cs[1]["link"] and cs[0]["value"] != cs[1]["value"] and cs[0]["rel"] != cs[1]["rel"]
                if not all(c["kind"] == "level" for c in cs) or not (len(cs) == 1 or hyst2) or any(c["thr"] in (LEVELS[0], LEVELS[-1]) for c in cs):
                    continue
                if len(cs) == 2 and pat not in DEM_PAIRS:
                    continue
                for area in (2e-3, 6e-3):
                    s = skeleton(skel, pat, H)
                    node(s, "T")["leak"] = {"area": area, "cd": 0.75, "start": 0, "end": None}
                    s["controls"] = [dict(c, prio=3, name="c%d" % i) for i, c in enumerate(cs)]
                    s["id"] = {"skel": skel, "pat": pat, "hyd": H, "cv": False, "controls": s["controls"], "tank_leak": area}
                    out.append(s)
        for cs in sets:
            for hyd in ((H, 900) if len(cs) == 1 else (H,)):
                for cv in ((False, True) if skel != "valve" and len(cs) <= 2 and any(c["link"] == "p2" for c in cs) else (False,)):
                    s = skeleton(skel, pat, hyd, cv)
                    prios = [(3,) * len(cs)]
                    if len(cs) == 2 and cs[0]["link"] == cs[1]["link"] and cs[0]["value"] != cs[1]["value"]:
                        prios.append((5, 3))
                        prios += [(0, 1), (2, 0)]       # incl. the lowest priority, 0
                    for pr in prios:
                        s2 = clone(s)
                        s2["controls"] = [dict(c, prio=p, name="c%d" % i) for i, (c, p) in enumerate(zip(cs, pr))]
                        s2["id"] = {"skel": skel, "pat": pat, "hyd": hyd, "cv": cv, "controls": s2["controls"]}
                        out.append(s2)
    # a tank with four links registered in the order plain, check valve into the tank, check valve out of the tank, plain: the
    # last one is commanded OPEN below a level; the tank fills to its maximum level and drains again
    for pat, thr in itertools.product(("fill_drain", "saw"), (4.5, 3.0)):
        s = skeleton("twosrc", pat, H)
        s["links"] += [P("c_in", "J1", "T", L=300.0, D=0.2, cv=True), P("c_out", "T", "J2", L=300.0, D=0.2, cv=True), P("p9", "J2", "T", L=250.0, D=0.25)]
        node(s, "J2")["demands"] = [[0.05, "D", None]]          # (a peak demand that really drains the tank)
        s["controls"] = [{"kind": "level", "node": "T", "rel": "<", "thr": thr, "link": "p9", "value": "OPEN", "prio": 3, "name": "c0"}]
        s["id"] = {"skel": "twosrc", "pat": pat, "hyd": H, "cv": False, "controls": s["controls"], "four_tank_links": True}
        out.append(s)
    # a pressure valve drawn AGAINST the flow (its own logic keeps it shut while it regulates) that a control commands OPEN:
    # an OPEN valve is a plain open link, whatever its regulating logic would do
    for vt, pat, thr in itertools.product(("PRV", "PSV"), ("drain", "saw", "fill_drain"), (2.5, 1.5)):
        s = skeleton("twosrc", pat, H)
        l = link(s, "p2")
        s["links"][s["links"].index(l)] = V("p2", "J2", "J1", vt, 20.0)
        s["controls"] = [{"kind": "level", "node": "T", "rel": "<", "thr": thr, "link": "p2", "value": "OPEN", "prio": 3, "name": "c0"}]
        s["id"] = {"skel": "twosrc", "pat": pat, "hyd": H, "cv": False, "controls": s["controls"], "reversed_valve": vt}
        out.append(s)
    return out


def cond_value(r, c, i):
    return float(r.node["pressure"][c["node"]][i])      # tank level is reported as the tank's pressure


def robust_true(c, v):
    if c["rel"] == ">":
        return v > c["thr"] + 1e-4
    return v < c["thr"] - 1e-4


def possibly_true(c, v):
    """not robustly false: true, or within the 1e-4 band of the threshold where either answer is legitimate"""
    if c["rel"] == ">":
        return v > c["thr"] - 1e-4
    return v < c["thr"] + 1e-4


def run_case(s):
    r = simulate(s)
    if r.error:
        return {"viol": [], "nontrivial": False, "outcome": "not-converged", "counts": {"not_converged": 1}}
    viol, counts = [], {"state_checks": 0, "exempt_cv_pump": 0, "exempt_tank_limit": 0, "exempt_conflict": 0, "overshoot_checks": 0}
    ctr = s["controls"]
    tk = node(s, "T")
    if tk.get("vcurve"):
        # non-prismatic tank: the smallest cross-section gives the largest (most lenient) level change per volume
        area = min((v1 - v0) / (l1 - l0) for (l0, v0), (l1, v1) in zip(tk["vcurve"], tk["vcurve"][1:]))
    else:
        area = math.pi / 4.0 * tk["diam"] ** 2
    changed = False
    for c in ctr:
        tv = [robust_true(c, cond_value(r, c, i)) for i in range(len(r.times))]
        if any(tv) and not all(tv):
            changed = True
    lev = r.node["pressure"]["T"]
    qT = r.node["demand"]["T"]
    for i, t in enumerate(r.times):
        for c in ctr:
            v = cond_value(r, c, i)
            if not robust_true(c, v):
                continue
            counts["state_checks"] += 1
            l = link(s, c["link"])
            st = float(r.link["status"][c["link"]][i])
            q = float(r.link["flowrate"][c["link"]][i])
            ha, hb = float(r.node["head"][l["a"]][i]), float(r.node["head"][l["b"]][i])
            # a conflicting control of equal or higher priority that is also robustly true
            conflict = False
            for d in ctr:
                if d is c or d["link"] != c["link"]:
                    continue
                if (d.get("attr", "status"), d["value"]) == (c.get("attr", "status"), c["value"]):
                    continue
                if possibly_true(d, cond_value(r, d, i)) and d.get("prio", 3) >= c.get("prio", 3):
                    conflict = True
            if conflict:
                counts["exempt_conflict"] += 1
                continue
            band = 1e-3 + 2.0 * max(abs(float(qT[i])), abs(float(qT[i - 1])) if i else 0.0) / area
            tank_adj = "T" in (l["a"], l["b"]) and (lev[i] <= TMIN + band or lev[i] >= TMAX - band)
            what = None
            if c.get("attr") == "setting":
                got = float(r.link["setting"][c["link"]][i])
                if abs(got - c["value"]) > 1e-9:
                    what = "setting %.6g reported, %.6g commanded" % (got, c["value"])
                elif st == 0:
                    what = "valve reported closed although a setting was commanded"
            elif c.get("attr") == "base_speed":
                # the simulator ignores pump speeds, but like EPANET a speed command switches the pump on
                if st == 0 and not (abs(q) < 1e-6 and (hb - ha) >= 4.0 / 3.0 * l["curve"][0][1] - 1e-2):
                    what = "pump reported closed although a speed was commanded"
            elif c["value"] == "CLOSED":
                if st != 0:
                    what = "reported status %g (not closed)" % st
            else:
                if st == 0:
                    if tank_adj:
                        counts["exempt_tank_limit"] += 1
                        continue
                    if l["t"] == "pipe" and l.get("cv") and abs(q) < 1e-6 and ha <= hb + 1e-3:
                        counts["exempt_cv_pump"] += 1
                        continue
                    if l["t"] == "hpump" and abs(q) < 1e-6 and (hb - ha) >= 4.0 / 3.0 * l["curve"][0][1] - 1e-2:
                        counts["exempt_cv_pump"] += 1
                        continue
                    what = "reported closed (flow %.3g, heads %.3f -> %.3f)" % (q, ha, hb)
            if what:
                kind = "%s-%s:%s:%s" % (c["kind"], "above" if c["rel"] == ">" else "below", c.get("attr", "status") if c.get("attr") else c["value"].lower(), l["t"] + ("-cv" if l.get("cv") else ""))
                if any(d is not c and d["link"] == c["link"] and d.get("prio", 3) != c.get("prio", 3) for d in ctr):
                    kind += ":priorities-differ"
                viol.append({"key": "inconsistent:%s" % kind, "what": "t=%d: control %s %s IF %s %s %s %g holds (value %.5f) but %s; controls %s" % (
                    t, c["link"], c["value"], c["node"], c["kind"], c["rel"], c["thr"], v, what, [_sh(x) for x in ctr])})
                break
        if viol:
            break
    # threshold overshoot at the first crossing (not at the initial step)
    if not viol:
        for c in ctr:
            if c["kind"] != "level":
                continue
            for i in range(1, len(r.times)):
                now = robust_true(c, float(lev[i]))
                # robustly on the other side one step earlier (a level that starts exactly on the threshold is no crossing)
                before_false = (float(lev[i - 1]) < c["thr"] - 1e-4) if c["rel"] == ">" else (float(lev[i - 1]) > c["thr"] + 1e-4)
                # only a control that changes something forces a partial step
                key = "setting" if c.get("attr") == "setting" else "status"
                want = float(c["value"]) if key == "setting" else (0.0 if c["value"] == "CLOSED" else None)
                cur_, prev_ = float(r.link[key][c["link"]][i]), float(r.link[key][c["link"]][i - 1])
                is_cmd = lambda x: (x == want) if want is not None else (x != 0.0)      # OPEN: any non-closed status
                acted = is_cmd(cur_) and not is_cmd(prev_)
                # a conflicting control of equal or higher priority that may hold at the crossing (level == threshold) takes
                # the crossing out of this control's hands: the change seen at step i then has another cause
                blocked = False
                for d in ctr:
                    if d is c or d["link"] != c["link"] or (d.get("attr", "status"), d["value"]) == (c.get("attr", "status"), c["value"]):
                        continue
                    if d.get("prio", 3) >= c.get("prio", 3) and (d["kind"] != "level" or possibly_true(d, c["thr"])):
                        blocked = True
                # an OPEN command for a tank link that the tank's own limit logic was holding closed one step earlier (tank within
                # the two-second band of a limit): the user status already was OPEN, the control changes nothing, and the opening
                # seen at step i is the tank's own reopening
                lk_ = link(s, c["link"])
                band_ = 1e-3 + 2.0 * max(abs(float(qT[i - 1])), abs(float(qT[i - 2])) if i >= 2 else 0.0) / area
                if want is None and key == "status" and "T" in (lk_["a"], lk_["b"]) and prev_ == 0.0 and \
                        (lev[i - 1] <= TMIN + band_ or lev[i - 1] >= TMAX - band_):
                    counts["exempt_tank_limit"] += 1
                    continue
                if now and before_false and acted and not blocked:
                    counts["overshoot_checks"] += 1
                    allow = 2.0 * max(abs(float(qT[i])), abs(float(qT[i - 1]))) / area + 1e-6 + 1e-4
                    if abs(float(lev[i]) - c["thr"]) > allow:
                        viol.append({"key": "overshoot:%s" % ("above" if c["rel"] == ">" else "below"), "what": "tank level passes the threshold %g of control %s between t=%d (%.4f) and t=%d (%.4f): overshoot %.4f m, two seconds of tank flow are %.4f m" % (
                            c["thr"], _sh(c), r.times[i - 1], lev[i - 1], r.times[i], lev[i], abs(lev[i] - c["thr"]), allow)})
                    break
            if viol:
                break
    return {"viol": viol[:2], "nontrivial": changed, "outcome": "%s:%d" % (s["id"]["skel"], len(ctr)), "counts": counts}


def _sh(c):
    return "%s %s IF %s %s%s%g p%d" % (c["link"], c["value"], c["node"], c["kind"][0], c["rel"], c["thr"], c.get("prio", 3))
