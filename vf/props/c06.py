"""C06 - tank volumes integrate their net inflow and stay within their limits."""
import itertools, math
from ..net import *

ID = "C06"
LEVEL = "exploration"
RULE = ("tank family R-p1-J1-[tank link]-T(-p3-J2): tank shape {cylinder, volume curve wider than the limits, volume curve ending "
        "at max_level} x init {mid, near min, near max} x tank link {pipe, reversed pipe, CV into tank, CV out of tank, pump into "
        "tank} x second tank link {no, yes} x demand pattern {fill, drain, fill-then-drain, saw-tooth} x hydraulic step {1h, 15min} x "
        "tank leak {no, yes}, fully crossed (thorough adds diameters, limits and a second tank); a second tank joined directly to the first by a pipe, registered before / after it; a second tank link that starts closed and is opened during the run; run + geometry edit (curve points in place, new curve, diameter) + reset + second run (judged); report 'ALL'. oracle on consecutive "
        "solved steps: V(l_{i+1})-V(l_i) = demand_i*dt; level_0 = init; limits with 2 s of flow slack; at min no discharge, at max no "
        "filling. non-trivial: the tank level changed by > 1 cm and (reached a limit or reversed direction)")

PATTERNS = {"fill": [0.2], "drain": [3.0], "filldrain": [0.2, 0.2, 3.0, 3.0], "saw": [0.2, 3.0]}
VC_WIDE = [[0.0, 0.0], [2.0, 30.0], [4.0, 80.0], [8.0, 160.0]]
VC_TIGHT = [[0.0, 0.0], [2.0, 30.0], [3.5, 70.0], [5.0, 90.0]]


def tank_spec(shape, init, tlink, second, pat, hyd, leak, diam=5.0, lim=(1.0, 5.0), two=False):
    mn, mx = lim
    t = T("T", elev=30.0, init={"mid": 3.0, "min": mn + 0.05, "max": mx - 0.05}[init], mn=mn, mx=mx, diam=diam)
    if shape == "vc_wide":
        t["vcurve"] = VC_WIDE
    elif shape == "vc_tight":
        t["vcurve"] = [[l * mx / 5.0, v] for l, v in VC_TIGHT]
    if leak:
        t["leak"] = {"area": 2e-4, "cd": 0.75, "start": 3600, "end": 6 * 3600}
    nodes = [R("R", 36.0), J("J1", 0.0, [[0.012, "D", None]]), t]
    links = [P("p1", "R", "J1", L=800.0, D=0.2)]
    if tlink == "pipe":
        links.append(P("p2", "J1", "T", L=200.0, D=0.2))
    elif tlink == "rpipe":
        links.append(P("p2", "T", "J1", L=200.0, D=0.2))
    elif tlink == "cv_in":
        links.append(P("p2", "J1", "T", L=200.0, D=0.2, cv=True))
    elif tlink == "cv_out":
        links.append(P("p2", "T", "J1", L=200.0, D=0.2, cv=True))
    elif tlink == "pump_in":
        links.append(HP("p2", "J1", "T", [[0.02, 8.0]]))
    if second:
        nodes.append(J("J2", 5.0, [[0.004, "D", None]]))
        links.append(P("p3", "T", "J2", L=300.0, D=0.15))
    if two:
        t2 = T("T2", elev=31.0, init=2.0, mn=0.5, mx=4.0, diam=4.0)
        if two == "vc":
            # a second, volume-curve tank registered AFTER the first one, close to its maximum level: it is shut off early
            # and then idles (net inflow exactly zero) while the first tank keeps moving
            t2 = T("T2", elev=30.5, init=3.6, mn=0.5, mx=4.0, diam=4.0)
            t2["vcurve"] = [[0.0, 0.0], [1.0, 8.0], [3.0, 40.0], [5.0, 60.0]]
        if two in ("direct_after", "direct_before"):
            # a second tank joined DIRECTLY to the first one by a plain pipe (no junction in between), higher up so that it
            # drains into it; registered after / before the first tank
            t2 = T("T2", elev=33.0, init=3.0, mn=0.5, mx=5.0, diam=6.0)
            if two == "direct_before":
                nodes.insert(nodes.index(t), t2)
            else:
                nodes.append(t2)
            links.append(P("p4", "T2", "T", L=150.0, D=0.15))
        else:
            nodes.append(t2)
            links.append(P("p4", "J1", "T2", L=150.0, D=0.2))
    s = spec(nodes, links, OPTS(dur=10 * 3600, hyd=hyd, pat=3600, rep="ALL"), patterns={"D": PATTERNS[pat]})
    s["id"] = {"shape": shape, "init": init, "tlink": tlink, "second": second, "pat": pat, "hyd": hyd, "leak": leak,
               "diam": diam, "lim": list(lim), "two": two}
    return s


def cases(tier):
    out = []
    for shape, init, tlink, second, pat, hyd, leak in itertools.product(
            ("cyl", "vc_wide", "vc_tight"), ("mid", "min", "max"), ("pipe", "rpipe", "cv_in", "cv_out", "pump_in"),
            (False, True), sorted(PATTERNS), (3600, 900), (False, True)):
        out.append(tank_spec(shape, init, tlink, second, pat, hyd, leak))
    for shape, init, tlink, pat in itertools.product(("cyl", "vc_wide"), ("mid", "min", "max"), ("pipe", "rpipe"), sorted(PATTERNS)):
        out.append(tank_spec(shape, init, tlink, False, pat, 3600, False, two="vc"))
        for two in ("direct_after", "direct_before"):
            out.append(tank_spec(shape, init, tlink, False, pat, 3600, False, two=two))
            out.append(tank_spec(shape, init, tlink, True, pat, 3600, False, two=two))
    # user controls in the same hydraulic steps as the tank events: an unrelated thin pipe px toggled 50 minutes into every
    # hour by time controls of low / default / high priority (the tank's own limit handling must not depend on them)
    for shape, init, tlink, pat, prio in itertools.product(("cyl", "vc_wide") if tier == "quick" else ("cyl", "vc_wide", "vc_tight"),
                                                            ("mid", "min", "max"), ("pipe", "rpipe", "cv_in"), sorted(PATTERNS), (0, 1, 3, 5)):
        s = tank_spec(shape, init, tlink, True, pat, 3600, False)
        s["links"].append(P("px", "R", "J1", L=900.0, D=0.1))
        s["controls"] = [{"kind": "time", "t": k * 3600 + 3000, "link": "px", "value": "CLOSED" if k % 2 == 0 else "OPEN", "prio": prio, "name": "u%d" % k}
                         for k in range(10)]
        s["id"] = dict(s["id"], user_controls_priority=prio)
        out.append(s)
    # a second tank link that is CLOSED when the run starts and opened by a time control at 2 h / 5 h: the tank's limits hold
    # for it from then on, like for any other link
    for shape, init, tlink, pat, t_open in itertools.product(("cyl", "vc_wide"), ("mid", "min", "max"), ("pipe", "rpipe", "cv_in"), sorted(PATTERNS), (2, 5)):
        s = tank_spec(shape, init, tlink, False, pat, 3600, False)
        s["links"].append(P("p5", "J1", "T", L=250.0, D=0.2, status="CLOSED"))
        s["controls"] = [{"kind": "time", "t": t_open * 3600, "link": "p5", "value": "OPEN", "name": "open_p5"}]
        s["id"] = dict(s["id"], late_link_opened_at=t_open)
        out.append(s)
    # edit-then-rerun: the model is simulated (and the tank volume read through the API), the tank geometry is edited - the
    # points of its volume curve in place, a new curve assigned, or the diameter of a cylinder - the model is reset and
    # simulated again; the second run is judged with the edited geometry
    for shape, init, tlink, pat in itertools.product(("cyl", "vc_wide", "vc_tight"), ("mid", "min", "max"), ("pipe", "cv_in"), sorted(PATTERNS)):
        for ed in (("diameter",) if shape == "cyl" else ("points_larger", "points_smaller", "new_curve")):
            s = tank_spec(shape, init, tlink, False, pat, 3600, False)
            s["edit"] = ed
            s["id"] = dict(s["id"], edit=ed)
            out.append(s)
    if tier == "thorough":
        for shape, init, tlink, pat, hyd, diam, lim, two in itertools.product(
                ("cyl", "vc_wide", "vc_tight"), ("mid", "min", "max"), ("pipe", "rpipe", "cv_in", "cv_out", "pump_in"),
                sorted(PATTERNS), (3600, 1800, 900), (3.0, 5.0, 12.0), ((1.0, 5.0), (0.0, 4.0), (2.0, 3.5)), (False, True)):
            if diam == 5.0 and lim == (1.0, 5.0) and not two and hyd != 1800:
                continue
            out.append(tank_spec(shape, init, tlink, True, pat, hyd, False, diam, lim, two))
    return out


def vol_and_area(tank, level):
    """reference volume(level) and local surface area: cylinder or piecewise-linear curve (extended linearly outside)."""
    vc = tank.get("vcurve")
    if not vc:
        a = math.pi * tank["diam"] ** 2 / 4.0
        return a * level, a
    for (l0, v0), (l1, v1) in zip(vc, vc[1:]):
        if level <= l1 or (l1, v1) == tuple(vc[-1]):
            if level < l0 and (l0, v0) != tuple(vc[0]):
                continue
            a = (v1 - v0) / (l1 - l0)
            return v0 + a * (level - l0), a
    raise AssertionError


def check_tanks(s, r, viol, counts):
    lev, dem = r.node["pressure"], r.node["demand"]
    moved = limit = False
    for tk in [n for n in s["nodes"] if n["t"] == "tank"]:
        n = tk["n"]
        L, Dm = lev[n], dem[n]
        vc = tk.get("vcurve")
        lo, hi = (vc[0][0], vc[-1][0]) if vc else (-1e9, 1e9)
        if abs(L[0] - tk["init"]) > 1e-9:
            viol.append({"key": "init-level", "what": "tank %s starts at level %.9g, init_level %.9g" % (n, L[0], tk["init"])})
            return moved, limit
        if abs(L.max() - L.min()) > 0.01:
            moved = True
        for i in range(len(r.times)):
            t = r.times[i]
            v, a = vol_and_area(tk, float(L[i]))
            qstar = float(abs(Dm[:i + 1]).max())   # the flow that carried it there may be several (closed) steps back
            slack = 2.0 * qstar / a + 1e-6
            counts["limit_checks"] = counts.get("limit_checks", 0) + 1
            leaky = bool(tk.get("leak"))  # a leak at the tank bottom is not a link: it may drain the tank below min_level
            if leaky and L[i] < tk["min"] + 1e-9:
                counts["skipped_min_clauses_leaky_tank"] = counts.get("skipped_min_clauses_leaky_tank", 0) + 1
            if (L[i] < tk["min"] - slack and not leaky) or L[i] > tk["max"] + slack:
                viol.append({"key": "limits:%s" % ("curve" if vc else "cyl"), "what": "tank %s level %.6g at t=%d outside [%.3g, %.3g] by more than 2 s of flow (%.3g m)" % (n, L[i], t, tk["min"], tk["max"], slack)})
                return moved, limit
            if L[i] <= tk["min"] + 1e-9:
                limit = True
                if Dm[i] + (r.node["leak_demand"][n][i] if leaky else 0.0) < -1e-6:
                    viol.append({"key": "discharge-at-min", "what": "tank %s at level %.6g <= min %.3g discharges %.6g at t=%d" % (n, L[i], tk["min"], Dm[i], t)})
                    return moved, limit
            if L[i] >= tk["max"] - 1e-9:
                limit = True
                if Dm[i] > 1e-6:
                    viol.append({"key": "fill-at-max", "what": "tank %s at level %.6g >= max %.3g fills %.6g at t=%d" % (n, L[i], tk["max"], Dm[i], t)})
                    return moved, limit
            if i + 1 < len(r.times):
                dt = r.times[i + 1] - t
                if not (lo <= L[i] <= hi and lo <= L[i + 1] <= hi):
                    counts["outside_curve_range"] = counts.get("outside_curve_range", 0) + 1     # judged with the end segments extended linearly
                v1, _ = vol_and_area(tk, float(L[i + 1]))
                counts["integration_checks"] = counts.get("integration_checks", 0) + 1
                if abs((v1 - v) - Dm[i] * dt) > 1e-7 + 1e-9 * abs(v):
                    viol.append({"key": "integration:%s" % ("curve" if vc else "cyl"), "what": "tank %s t=%d..%d: volume changes by %.9g but net inflow*dt = %.9g (levels %.6g -> %.6g)" % (n, t, r.times[i + 1], v1 - v, Dm[i] * dt, L[i], L[i + 1])})
                    return moved, limit
    return moved, limit


def apply_edit(wn, s):
    s = clone(s)
    tk = node(s, "T")
    t = wn.get_node("T")
    t.get_volume()                      # a reader of the geometry between the run and the edit
    ed = s["edit"]
    if ed == "diameter":
        t.diameter = 8.0; tk["diam"] = 8.0
    else:
        f = 0.4 if ed == "points_smaller" else 2.5
        tk["vcurve"] = [[l, v * f] for l, v in tk["vcurve"]]
        if ed == "new_curve":
            wn.add_curve("vc_new", "VOLUME", [tuple(p) for p in tk["vcurve"]])
            t.vol_curve_name = "vc_new"
        else:
            wn.get_curve(t.vol_curve_name).points = [tuple(p) for p in tk["vcurve"]]
    return s


def run_case(s):
    if s.get("edit"):
        wn = build(s)
        r0 = simulate(s, wn=wn)
        if r0.error:
            return {"viol": [], "nontrivial": False, "outcome": "not-converged", "counts": {"not_converged": 1}}
        s = apply_edit(wn, s)
        wn.reset_initial_values()
        r = simulate(s, wn=wn)
    else:
        r = simulate(s)
    if r.error:
        return {"viol": [], "nontrivial": False, "outcome": "not-converged", "counts": {"not_converged": 1}}
    viol, counts = [], {}
    moved, limit = check_tanks(s, r, viol, counts)
    L = r.node["pressure"]["T"]
    d = [1 if b > a + 1e-6 else (-1 if b < a - 1e-6 else 0) for a, b in zip(L, L[1:])]
    rev = 1 in d and -1 in d
    partial = any((t % s["opts"]["hyd"]) != 0 for t in r.times)
    if s.get("edit"):
        for v in viol:
            v["key"] = "after-edit:%s:%s" % (s["edit"], v["key"]); v["what"] = "second run after the edit %s: %s" % (s["edit"], v["what"])
    return {"viol": viol, "nontrivial": bool(moved and (limit or rev)),
            "outcome": "lim%d_rev%d_partial%d%s" % (limit, rev, partial, "_edited" if s.get("edit") else ""), "counts": counts}
