"""C19 - pipe splitting, breaking and skeletonization keep what they promise to keep."""
import copy, itertools, json, math
from ..net import *

ID = "C19"
LEVEL = "exploration"
RULE = ("split/break: network R-p1-J1-p2-J2-p3-T (+ J2-p4-J3 dead end) in the variants {plain, p2 with two vertices, p2 with one vertex, "
        "p3 with check valve, p2 initially closed, time control on p2, minor loss on p2, pipe from the reservoir / into the tank, pipe joining reservoir and tank directly} x "
        "EVERY pipe x fraction {0, 0.25, 1/3, 0.5, 1} x add_pipe_at_end {T,F} x return_copy {T,F} x {split, break}.  skeletonize: 14 "
        "networks with branch / series / parallel patterns next to tanks, pumps, valves and controlled elements x all diameter "
        "assignments over {0.1, 0.3} (thorough {0.1,0.2,0.3}) x thresholds {0.05, 0.1, 0.2, 0.3} x on/off combinations of branch/"
        "series/parallel x max_cycles {None, 1} x exclusion lists {none, each pipe, each junction} x use_epanet {F, T}; demands "
        "carry two patterns of coprime length (and, in a variant, constant entries next to a non-flat default pattern that was added later).  oracles: see DESIGN section 4 C19.  non-trivial: split/break with 0 < fraction < 1; "
        "skeletonize runs that remove >= 1 junction")
ASSUMPTIONS = ["the hydraulic-equivalence clause of split_pipe is evaluated for 0 < fraction < 1 on pipes without minor loss (the documented rule 'the new pipe has the same minor loss' doubles the total minor loss)",
               "status of the new pipe is compared with the original pipe's initial status on a model in its initial state"]

FRACTIONS = [0.0, 0.25, 1.0 / 3.0, 0.5, 1.0]


# ------------------------------------------------------------------------------------------------ split / break
def sb_base(variant):
    s = spec([R("R", 50.0, xy=(0.0, 0.0)), J("J1", 2.0, [[0.01, "P2", None]], xy=(100.0, 0.0)), J("J2", 6.0, [[0.02, "P3", None]], xy=(100.0, 80.0)),
              T("T", elev=30.0, init=3.0, mn=0.5, mx=6.0, diam=12.0, xy=(220.0, 80.0)), J("J3", 1.0, [[0.005, None, None]], xy=(100.0, 200.0))],
             [P("p1", "R", "J1", L=300.0), P("p2", "J1", "J2", L=450.0, D=0.25, C=110.0), P("p3", "J2", "T", L=200.0), P("p4", "J2", "J3", L=150.0, D=0.2)],
             OPTS(dur=2 * 3600), patterns={"P2": [1.0, 1.5], "P3": [0.8, 1.2, 1.0]})
    if variant == "vertices2":
        link(s, "p2")["vertices"] = [[140.0, 10.0], [140.0, 60.0]]
    elif variant == "vertices1":
        link(s, "p2")["vertices"] = [[160.0, 40.0]]
    elif variant == "cv":
        link(s, "p3")["cv"] = True
    elif variant == "closed":
        link(s, "p2")["status"] = "CLOSED"
        s["links"].append(P("p5", "J1", "J2", L=700.0, D=0.2))
    elif variant == "control":
        s["controls"] = [{"kind": "time", "t": 3600, "link": "p2", "value": "CLOSED"}]
        s["links"].append(P("p5", "J1", "J2", L=700.0, D=0.2))
    elif variant == "minor":
        link(s, "p2")["K"] = 4.0
    elif variant == "direct":       # a pipe that joins the reservoir and the tank directly
        s["links"].append(P("p5", "R", "T", L=900.0, D=0.15))
    elif variant != "plain":
        raise KeyError(variant)
    return s


def sb_build(s):
    wn = build(s)
    for l in s["links"]:
        if l.get("vertices"):
            wn.get_link(l["n"]).vertices = [tuple(v) for v in l["vertices"]]
    return wn


def sb_cases(tier):
    out = []
    for variant in ("plain", "vertices2", "vertices1", "cv", "closed", "control", "minor", "direct"):
        s = sb_base(variant)
        pipes = [l["n"] for l in s["links"]]
        if tier == "quick" and variant in ("closed", "control", "minor", "vertices1"):
            pipes = ["p2"]
        if variant == "direct":
            pipes = ["p5"] if tier == "quick" else ["p5", "p3"]
        for pn, f, at_end, rc, mode in itertools.product(pipes, FRACTIONS, (True, False), (True, False), ("split", "break")):
            if tier == "quick" and not rc and (mode == "break" or f not in (0.25, 1.0)):
                continue
            out.append({"part": "sb", "variant": variant, "pipe": pn, "f": f, "at_end": at_end, "copy": rc, "mode": mode})
    return out


def polyline_point(pts, f):
    segs = [math.dist(a, b) for a, b in zip(pts, pts[1:])]
    tot = sum(segs)
    target = tot * f
    acc = 0.0
    for (a, b), L in zip(zip(pts, pts[1:]), segs):
        if acc + L >= target and L > 0:
            u = (target - acc) / L
            return (a[0] + (b[0] - a[0]) * u, a[1] + (b[1] - a[1]) * u), acc
        acc += L
    return pts[-1], tot


def jd(wn):
    import wntr
    return json.loads(json.dumps(wntr.network.to_dict(wn), default=str, sort_keys=True))


def run_sb(c):
    import wntr, warnings
    s = sb_base(c["variant"])
    wn = sb_build(s)
    d_before = jd(wn)
    spec_l = link(s, c["pipe"])
    pts = [tuple(node(s, spec_l["a"])["xy"])] + [tuple(v) for v in spec_l.get("vertices", [])] + [tuple(node(s, spec_l["b"])["xy"])]
    f = c["f"]
    viol = []
    tag = c["mode"]
    try:
        with warnings.catch_warnings():
            warnings.simplefilter("ignore")
            if c["mode"] == "split":
                wn2 = wntr.morph.split_pipe(wn, c["pipe"], "pNEW", "jNEW", add_pipe_at_end=c["at_end"], split_at_point=f, return_copy=c["copy"])
                newj = ["jNEW"]
            else:
                wn2 = wntr.morph.break_pipe(wn, c["pipe"], "pNEW", "jNEWa", "jNEWb", add_pipe_at_end=c["at_end"], split_at_point=f, return_copy=c["copy"])
                newj = ["jNEWa", "jNEWb"]
    except Exception as e:  # noqa
        import traceback
        fn = traceback.extract_tb(e.__traceback__)[-1].name
        return {"viol": [{"key": "%s:crash:%s:%s" % (tag, type(e).__name__, "vertices" if spec_l.get("vertices") else "plain"),
                          "what": "%s_pipe(%s, fraction %g, add_pipe_at_end=%s) raised %s: %s" % (c["mode"], c["pipe"], f, c["at_end"], type(e).__name__, str(e)[:120]),
                          "detail": traceback.format_exc()[-1200:]}], "nontrivial": 0 < f < 1}
    if c["copy"]:
        if jd(wn) != d_before:
            viol.append({"key": tag + ":input-modified", "what": "return_copy=True but the input model changed"})
        if wn2 is wn:
            viol.append({"key": tag + ":input-modified", "what": "return_copy=True returned the input object"})
    elif wn2 is not wn:
        viol.append({"key": tag + ":not-in-place", "what": "return_copy=False returned another object"})
    d2 = jd(wn2)
    L0 = spec_l["L"]
    old, new = wn2.get_link(c["pipe"]), wn2.get_link("pNEW")
    # total length, and the two pieces at the requested fraction
    if abs(old.length + new.length - L0) > 1e-9 * L0:
        viol.append({"key": tag + ":total-length", "what": "lengths %.6f + %.6f != %.6f" % (old.length, new.length, L0)})
    first, second = (old, new) if c["at_end"] else (new, old)
    if abs(first.length - L0 * f) > 1e-9 * L0 or abs(second.length - L0 * (1 - f)) > 1e-9 * L0:
        viol.append({"key": tag + ":fraction", "what": "pieces %.6f / %.6f, requested fraction %g of %.1f (add_pipe_at_end=%s)" % (first.length, second.length, f, L0, c["at_end"])})
    # connectivity
    ja, jb = (newj[0], newj[-1])
    exp_first = (spec_l["a"], ja if c["at_end"] else jb)
    exp_second = (jb if c["at_end"] else ja, spec_l["b"])
    got_first = (first.start_node_name, first.end_node_name)
    got_second = (second.start_node_name, second.end_node_name)
    if c["mode"] == "split":
        ok = got_first == (spec_l["a"], "jNEW") and got_second == ("jNEW", spec_l["b"])
    else:
        ok = got_first[0] == spec_l["a"] and got_second[1] == spec_l["b"] and {got_first[1], got_second[0]} == set(newj)
    if not ok:
        viol.append({"key": tag + ":connectivity", "what": "pieces connect %s and %s" % (got_first, got_second)})
    # new junction(s): elevation, coordinates, zero demand
    na, nb = node(s, spec_l["a"]), node(s, spec_l["b"])
    if na["t"] == "res":
        exp_el = nb["elev"]
    elif nb["t"] == "res":
        exp_el = na["elev"]
    else:
        exp_el = na["elev"] + (nb["elev"] - na["elev"]) * f
    (ex, ey), dist_before = polyline_point(pts, f)
    for jn in newj:
        j = wn2.get_node(jn)
        if abs(j.elevation - exp_el) > 1e-9:
            viol.append({"key": tag + ":elevation", "what": "new junction elevation %.6f, interpolated %.6f" % (j.elevation, exp_el)})
        if math.dist(j.coordinates, (ex, ey)) > 1e-6:
            viol.append({"key": tag + ":coordinates:%s" % ("vertices" if spec_l.get("vertices") else "plain"),
                         "what": "new junction at %s, the point at fraction %g of the pipe's polyline is (%.4f, %.4f)" % (tuple(j.coordinates), f, ex, ey)})
        if abs(j.base_demand) > 0:
            viol.append({"key": tag + ":junction-demand", "what": "new junction has base demand %r" % j.base_demand})
    # vertices: all original vertices kept, in order, split between the two pieces
    allv = [tuple(v) for v in first.vertices] + [tuple(v) for v in second.vertices]
    if allv != [tuple(v) for v in spec_l.get("vertices", [])]:
        viol.append({"key": tag + ":vertices", "what": "vertices of the pieces %s + %s, original %s" % (first.vertices, second.vertices, spec_l.get("vertices", []))})
    # new pipe attributes
    if new.check_valve:
        viol.append({"key": tag + ":new-pipe-check-valve", "what": "the new pipe has a check valve (original pipe check_valve=%s)" % spec_l["cv"]})
    for a, ev in (("diameter", spec_l["D"]), ("roughness", spec_l["C"]), ("minor_loss", spec_l["K"])):
        if abs(getattr(new, a) - ev) > 1e-12:
            viol.append({"key": tag + ":new-pipe-%s" % a, "what": "new pipe %s %r, original %r" % (a, getattr(new, a), ev)})
    if str(new.initial_status).upper() != {"OPEN": "OPEN", "CLOSED": "CLOSED"}[spec_l["status"]]:
        viol.append({"key": tag + ":new-pipe-status", "what": "new pipe initial status %s, original %s" % (new.initial_status, spec_l["status"])})
    if old.check_valve != spec_l["cv"]:
        viol.append({"key": tag + ":old-pipe-check-valve", "what": "the original pipe's check valve flag changed"})
    # every other element unchanged
    def strip(d):
        d = copy.deepcopy(d)
        d["nodes"] = [n for n in d["nodes"] if n["name"] not in newj]
        d["links"] = [l for l in d["links"] if l["name"] not in ("pNEW", c["pipe"])]
        return d
    a, b = strip(d_before), strip(d2)
    if a != b:
        from .c11 import first_diff
        r = first_diff(a, b)
        viol.append({"key": tag + ":other-elements-changed", "what": "another element changed: %s %r -> %r" % r})
    # hydraulics unchanged by a split
    counts = {"sb_cases": 1}
    if c["mode"] == "split" and 0 < f < 1 and spec_l["K"] == 0 and not viol:
        counts["hydraulic_comparisons"] = 1
        r0 = simulate(s, wn=sb_build(s))
        wn2.reset_initial_values()
        r1 = wrap(wntr.sim.WNTRSimulator(wn2).run_sim(), wn2)
        if r0.error or r1.error:
            if r0.error != r1.error:
                viol.append({"key": "split:hydraulics:convergence", "what": "run %s before and %s after the split" % ("fails" if r0.error else "completes", "fails" if r1.error else "completes")})
        else:
            for n in r0.node["head"]:
                d = abs(r0.node["head"][n] - r1.node["head"][n]).max()
                if d > 1e-5:
                    viol.append({"key": "split:hydraulics:head", "what": "head of %s changes by %.3g after splitting %s at %g (variant %s)" % (n, d, c["pipe"], f, c["variant"])})
                    break
            for l in r0.link["flowrate"]:
                if l == c["pipe"]:
                    continue
                d = abs(r0.link["flowrate"][l] - r1.link["flowrate"][l]).max()
                if d > 1e-6:
                    viol.append({"key": "split:hydraulics:flow", "what": "flow of %s changes by %.3g after splitting %s at %g" % (l, d, c["pipe"], f)})
                    break
    seen, out = set(), []
    for v in viol:
        if v["key"] not in seen:
            seen.add(v["key"]); out.append(v)
    return {"viol": out[:5], "nontrivial": 0 < f < 1, "outcome": "%s:%s" % (c["mode"], c["variant"]), "counts": counts}


# ------------------------------------------------------------------------------------------------ skeletonize
def sk_nets():
    N = {}
    dem = lambda b, p: [[b, p, None]]
    N["branch"] = spec([R("R"), J("J1", 0, dem(0.01, "P2")), J("J2", 1, dem(0.01, "P3")), J("J3", 2, dem(0.004, "P2")), J("J4", 1, [[0.003, "P3", "a"], [0.002, None, "b"]])],
                       [P("a", "R", "J1"), P("b", "J1", "J2"), P("c", "J2", "J3"), P("d", "J2", "J4")])
    N["series_tank"] = spec([R("R"), J("J1", 0, dem(0.01, "P2")), J("J2", 1, dem(0.008, "P3")), J("J3", 2, dem(0.004, None)), T("T")],
                            [P("a", "R", "J1"), P("b", "J1", "J2", L=200.0), P("c", "J2", "J3", L=500.0), P("d", "J3", "T")])
    N["parallel"] = spec([R("R"), J("J1", 0, dem(0.01, "P2")), J("J2", 1, dem(0.008, "P3")), J("J3", 2, dem(0.004, "P2"))],
                         [P("a", "R", "J1"), P("b", "J1", "J2"), P("c", "J1", "J2", L=650.0), P("d", "J2", "J3")])
    N["loop_branch"] = spec([R("R"), J("J1", 0, dem(0.01, "P2")), J("J2", 1, dem(0.008, "P3")), J("J3", 2, dem(0.004, "P2")), J("J4", 1, dem(0.002, "P3"))],
                            [P("a", "R", "J1"), P("b", "J1", "J2"), P("c", "J2", "J3"), P("d", "J3", "J1", L=700.0), P("e", "J3", "J4")])
    N["pump"] = spec([R("R", 10.0), J("J1", 0, dem(0.005, "P2")), J("J2", 1, dem(0.008, "P3")), J("J3", 2, dem(0.004, "P2")), J("J4", 1, dem(0.002, None))],
                     [HP("pu", "R", "J1", [[0.05, 40.0]]), P("b", "J1", "J2"), P("c", "J2", "J3"), P("d", "J2", "J4")])
    N["valve"] = spec([R("R"), J("J1", 0, dem(0.005, "P2")), J("J2", 1, dem(0.008, "P3")), J("J3", 2, dem(0.004, "P2")), T("T")],
                      [P("a", "R", "J1"), V("v", "J1", "J2", "TCV", 5.0), P("c", "J2", "J3"), P("d", "J3", "T")])
    N["control"] = spec([R("R"), J("J1", 0, dem(0.01, "P2")), J("J2", 1, dem(0.008, "P3")), J("J3", 2, dem(0.004, "P2")), J("J4", 1, dem(0.002, "P3"))],
                        [P("a", "R", "J1"), P("b", "J1", "J2"), P("c", "J2", "J3"), P("d", "J3", "J4")],
                        controls=[{"kind": "time", "t": 3600, "link": "c", "value": "CLOSED"}, {"kind": "pressure", "node": "J4", "rel": "<", "thr": 5.0, "link": "a", "value": "OPEN"}])
    N["par_series"] = spec([R("R"), J("J1", 0, dem(0.01, "P2")), J("J2", 1, dem(0.008, "P3")), J("J3", 2, dem(0.004, "P2")), T("T")],
                           [P("a", "R", "J1"), P("b", "J1", "J2"), P("c", "J1", "J2", L=600.0), P("d", "J2", "J3"), P("e", "J3", "T")])
    # inflow points (negative base demand) and zero base demands on junctions that get trimmed / merged away
    N["branch_neg"] = spec([R("R"), J("J1", 0, dem(0.01, "P2")), J("J2", 1, dem(0.01, "P3")), J("J3", 2, dem(-0.004, "P2")), J("J4", 1, [[0.0, "P3", "a"], [0.002, None, "b"]])],
                           [P("a", "R", "J1"), P("b", "J1", "J2"), P("c", "J2", "J3"), P("d", "J2", "J4")])
    N["series_neg"] = spec([R("R"), J("J1", 0, dem(0.01, "P2")), J("J2", 1, dem(-0.003, "P3")), J("J3", 2, [[0.0, None, None], [0.004, "P2", "x"]]), T("T")],
                           [P("a", "R", "J1"), P("b", "J1", "J2", L=200.0), P("c", "J2", "J3", L=500.0), P("d", "J3", "T")])
    # node and link names drawn from the same strings (separate namespaces, as in EPANET's example networks): controls refer
    # to junction J3 and to pipe J3
    N["control_same_labels"] = spec([R("R"), J("J1", 0, dem(0.01, "P2")), J("J2", 1, dem(0.008, "P3")), J("J3", 2, dem(0.004, "P2")), J("J4", 1, dem(0.002, "P3"))],
                                    [P("J1", "R", "J1"), P("J2", "J1", "J2"), P("J3", "J2", "J3"), P("J4", "J3", "J4")],
                                    controls=[{"kind": "time", "t": 3600, "link": "J3", "value": "CLOSED"}, {"kind": "pressure", "node": "J3", "rel": "<", "thr": 5.0, "link": "J1", "value": "OPEN"}])
    N["control_same_labels2"] = spec([R("R"), J("J1", 0, dem(0.01, "P2")), J("J2", 1, dem(0.008, "P3")), J("J3", 2, dem(0.004, "P2")), J("J4", 1, dem(0.002, "P3"))],
                                     [P("J1", "R", "J1"), P("J2", "J1", "J2"), P("J3", "J2", "J3"), P("J4", "J3", "J4")],
                                     controls=[{"kind": "pressure", "node": "J4", "rel": "<", "thr": 5.0, "link": "J1", "value": "OPEN"}, {"kind": "time", "t": 3600, "link": "J4", "value": "CLOSED"},
                                               {"kind": "time", "t": 7200, "link": "J2", "value": "CLOSED"}])
    # a valve / a pump as the ONLY link of a dead-end junction (branch trimming works on dead ends)
    N["valve_leaf"] = spec([R("R"), J("J1", 0, dem(0.01, "P2")), J("J2", 1, dem(0.008, "P3")), J("J3", 2, dem(0.004, "P2")), J("J4", 1, dem(0.002, None))],
                           [P("a", "R", "J1"), P("b", "J1", "J2"), P("c", "J2", "J4"), V("v", "J2", "J3", "PRV", 20.0, D=0.15)])
    N["pump_leaf"] = spec([R("R"), J("J1", 0, dem(0.01, "P2")), J("J2", 1, dem(0.008, "P3")), J("J3", 2, dem(0.004, "P2"))],
                          [P("a", "R", "J1"), P("b", "J1", "J2"), HP("pu", "J2", "J3", [[0.01, 20.0]])])
    for s in N.values():
        s["patterns"] = {"P2": [1.0, 1.5], "P3": [0.8, 1.2, 1.0]}
        s["opts"]["dur"] = 3600
    return N


def sk_cases(tier):
    out = []
    dalph = (0.1, 0.3) if tier == "quick" else (0.1, 0.2, 0.3)
    for name, s in sk_nets().items():
        pipes = [l["n"] for l in s["links"] if l["t"] == "pipe"]
        juncs = [n["n"] for n in s["nodes"] if n["t"] == "junc"]
        for dia in itertools.product(dalph, repeat=len(pipes)):
            for thr in (0.05, 0.1, 0.2, 0.3):
                for ops in itertools.product((True, False), repeat=3):
                    if tier == "quick" and sum(ops) == 0:
                        continue
                    base = {"part": "sk", "net": name, "dia": list(dia), "thr": thr, "ops": list(ops), "max_cycles": None, "excl_p": [], "excl_j": [], "epanet": False}
                    out.append(base)
                    if ops == (True, True, True):
                        out.append(dict(base, max_cycles=1))
                        if tier != "quick" or thr == 0.3:
                            for p in pipes:
                                out.append(dict(base, excl_p=[p]))
                            for j in juncs:
                                out.append(dict(base, excl_j=[j]))
                        if tier != "quick" or (thr == 0.3 and dia[0] == dalph[0]):
                            out.append(dict(base, epanet=True))
                        if name in ("branch", "series_tank", "pump", "branch_neg", "series_neg", "valve_leaf") and thr in (0.2, 0.3):
                            out.append(dict(base, late_default=True))
    return out


def total_demand(wn, t):
    """independent evaluation of sum_j sum_k base_k * pattern_k(t) from the element attributes"""
    tot = 0.0
    pstep = wn.options.time.pattern_timestep
    for _, j in wn.junctions():
        for d in j.demand_timeseries_list:
            m = 1.0
            pn = d.pattern_name
            if pn is not None and pn in wn.pattern_name_list:
                mult = list(wn.get_pattern(pn).multipliers)
                if mult:
                    m = mult[int(t // pstep) % len(mult)]
            tot += d.base_value * m
    return tot


def run_sk(c):
    import wntr, warnings
    s = clone(sk_nets()[c["net"]])
    pipes = [l for l in s["links"] if l["t"] == "pipe"]
    for l, d in zip(pipes, c["dia"]):
        l["D"] = d
    wn = build(s)
    if c.get("late_default"):
        # a default pattern ('1') that is added AFTER the junctions exist: their pattern-less demand entries stay constant
        wn.add_pattern("1", [1.0, 2.0, 0.5])
        for n_ in s["nodes"]:           # ... explicitly constant ("if None, the value will be constant")
            for i_, (b_, p_, c_) in enumerate(n_.get("demands") or []):
                if p_ is None:
                    wn.get_node(n_["n"]).demand_timeseries_list[i_].pattern_name = None
    viol = []
    nodes0 = list(wn.node_name_list)
    keep_expected = set(wn.tank_name_list) | set(wn.reservoir_name_list)
    keep_links = set(wn.pump_name_list) | set(wn.valve_name_list)
    for _, ctl in wn.controls():
        for req in ctl.requires():
            (keep_links if hasattr(req, "start_node_name") else keep_expected).add(req.name)
    dem0 = [total_demand(wn, t) for t in range(0, 6 * 3600, 3600)]
    try:
        with warnings.catch_warnings():
            warnings.simplefilter("ignore")
            wn2, smap = wntr.morph.skeletonize(wn, c["thr"], branch_trim=c["ops"][0], series_pipe_merge=c["ops"][1], parallel_pipe_merge=c["ops"][2],
                                               max_cycles=c["max_cycles"], use_epanet=c["epanet"], pipes_to_exclude=list(c["excl_p"]),
                                               junctions_to_exclude=list(c["excl_j"]), return_map=True, return_copy=True)
    except Exception as e:  # noqa
        import traceback
        fn = traceback.extract_tb(e.__traceback__)[-1].name
        return {"viol": [{"key": "skel:crash:%s:%s" % (type(e).__name__, fn), "what": "skeletonize raised %s: %s (%s)" % (type(e).__name__, str(e)[:120], c),
                          "detail": traceback.format_exc()[-1200:]}], "nontrivial": False}
    for n in sorted(keep_expected):
        if n not in wn2.node_name_list:
            viol.append({"key": "skel:node-lost", "what": "node %s (tank / reservoir / referenced by a control) was removed" % n})
    for l in sorted(keep_links):
        if l not in wn2.link_name_list:
            viol.append({"key": "skel:link-lost", "what": "link %s (pump / valve / referenced by a control) was removed" % l})
    for p in c["excl_p"]:
        if p not in wn2.link_name_list:
            viol.append({"key": "skel:excluded-pipe-lost", "what": "excluded pipe %s was removed" % p})
    for j in c["excl_j"]:
        if j not in wn2.node_name_list:
            viol.append({"key": "skel:excluded-junction-lost", "what": "excluded junction %s was removed" % j})
    dem1 = [total_demand(wn2, t) for t in range(0, 6 * 3600, 3600)]
    for t, (a, b) in enumerate(zip(dem0, dem1)):
        if abs(a - b) > 1e-12:
            viol.append({"key": "skel:demand-not-conserved", "what": "total demand at t=%dh is %.6g before and %.6g after skeletonization (%s)" % (t, a, b, c)})
            break
    # the map: keys = original nodes, lists partition the original node set, non-empty lists <=> retained nodes
    if sorted(smap) != sorted(nodes0):
        viol.append({"key": "skel:map-keys", "what": "map keys %s, original nodes %s" % (sorted(smap), sorted(nodes0))})
    flat = [x for v in smap.values() for x in v]
    if sorted(flat) != sorted(nodes0):
        viol.append({"key": "skel:map-not-a-partition", "what": "map values %s do not contain every original node exactly once" % smap})
    ret = sorted(k for k, v in smap.items() if v)
    if ret != sorted(wn2.node_name_list):
        viol.append({"key": "skel:map-retained", "what": "keys with non-empty lists %s, retained nodes %s" % (ret, sorted(wn2.node_name_list))})
    for k, v in smap.items():
        if v and k not in v:
            viol.append({"key": "skel:map-self", "what": "retained node %s is not in its own list %s" % (k, v)})
    # every link's end nodes still exist
    for ln, l in wn2.links():
        if l.start_node_name not in wn2.node_name_list or l.end_node_name not in wn2.node_name_list:
            viol.append({"key": "skel:dangling-link", "what": "link %s refers to a removed node" % ln})
    seen, out = set(), []
    for v in viol:
        if v["key"] not in seen:
            seen.add(v["key"]); out.append(v)
    removed = len(nodes0) - wn2.num_nodes
    return {"viol": out[:4], "nontrivial": removed > 0, "outcome": "skel:%s:-%d" % (c["net"], removed), "counts": {"sk_cases": 1}}


def cases(tier):
    return sb_cases(tier) + sk_cases(tier)


def run_case(c):
    return run_sb(c) if c["part"] == "sb" else run_sk(c)
