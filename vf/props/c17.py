"""C17 - EPANET unit conversions are exact inverses with the right physical constants.
Exhaustive over FlowUnits x HydParam x darcy_weisbach and FlowUnits x QualParam x MassUnits x reaction order,
each x container type x value alphabet.  The reference table below is typed from the physical definitions
(EPANET manual, units table); nothing is imported from the code under test except the enum *names*."""
import math

ID = "C17"
LEVEL = "exploration"
RULE = ("all 11 FlowUnits x 15 HydParam x darcy_weisbach{F,T} and 11 FlowUnits x 8 QualParam x 4 MassUnits x "
        "reaction_order{0,1,2}; per case: containers {float,int,list,ndarray,dict} x value alphabet; oracle = inverse, "
        "linearity, container preservation, factor == reference table (thorough: 14 values from 1e-150 to 1e9 and a 2-D array). non-trivial: reference factor != 1")
ASSUMPTIONS = ["reference factors typed from physical definitions: gal=3.785411784 L, Imp gal=4.54609 L, ft=0.3048 m, "
               "acre-ft=43560 ft3, psi=0.3048/0.4333 m, hp=745.699872 W, in=0.0254 m",
               "zero-order wall coefficient in US units: mass/ft2/day -> kg/m2/s, i.e. divided by 0.3048^2 m2 per ft2"]

FT = 0.3048
GAL = 3.785411784e-3
FLOW = {"CFS": FT ** 3, "GPM": GAL / 60.0, "MGD": 1e6 * GAL / 86400.0, "IMGD": 1e6 * 4.54609e-3 / 86400.0,
        "AFD": 43560.0 * FT ** 3 / 86400.0, "LPS": 1e-3, "LPM": 1e-3 / 60.0, "MLD": 1e3 / 86400.0,
        "CMH": 1.0 / 3600.0, "CMD": 1.0 / 86400.0, "SI": 1.0}
US = {"CFS", "GPM", "MGD", "IMGD", "AFD"}
METRIC = {"LPS", "LPM", "MLD", "CMH", "CMD"}
MASS = {"mg": 1e-6, "ug": 1e-9, "g": 1e-3, "kg": 1.0}
HYD = ["Elevation", "Demand", "HydraulicHead", "Pressure", "Length", "PipeDiameter", "Flow", "Velocity", "HeadLoss",
       "Power", "Volume", "EmitterCoeff", "RoughnessCoeff", "TankDiameter", "Energy"]
QUAL = ["Quality", "LinkQuality", "ReactionRate", "Concentration", "BulkReactionCoeff", "WallReactionCoeff",
        "SourceMassInject", "WaterAge"]
VALUES = [0.0, 1.0, -2.5, 1e-6, 12345.678]
VALUES_T = VALUES + [-1.0, 3.0, 0.1, 1e-12, 1e9, -7e5, 2.0 ** 0.5, 1e-300 ** 0.5, 86400.0]        # 14 values (int where integral)


def ref_hyd(param, fu, dw):
    us, met = fu in US, fu in METRIC
    if param in ("Demand", "Flow"):
        return FLOW[fu]
    if param == "EmitterCoeff":  # flow / sqrt(psi)  ->  flow / sqrt(m)
        return FLOW[fu] * (math.sqrt(0.4333 / FT) if us else 1.0)
    if param == "PipeDiameter":
        return 0.0254 if us else (1e-3 if met else 1.0)
    if param == "RoughnessCoeff":
        if not dw:
            return 1.0
        return 1e-3 * FT if us else (1e-3 if met else 1.0)
    if param in ("TankDiameter", "Elevation", "HydraulicHead", "Length", "Velocity"):
        return FT if us else 1.0
    if param == "HeadLoss":
        return 1e-3
    if param == "Energy":
        return 3.6e6
    if param == "Power":
        return 745.699872 if us else (1000.0 if met else 1.0)
    if param == "Pressure":
        return FT / 0.4333 if us else 1.0
    if param == "Volume":
        return FT ** 3 if us else 1.0
    raise KeyError(param)


def ref_qual(param, fu, mass, order):
    """returns (factor, tolerance) or (None, None) if the factor is not judged."""
    us = fu in US
    m = MASS[mass]
    if param in ("Concentration", "Quality", "LinkQuality"):
        return m / 1e-3, 1e-8
    if param == "ReactionRate":
        return m / 1e-3 / 86400.0, 1e-8
    if param == "SourceMassInject":
        return m / 60.0, 1e-8
    if param == "BulkReactionCoeff":
        return (1.0 / 86400.0 if order == 1 else 1.0), 1e-8
    if param == "WallReactionCoeff":
        if order == 1:
            return (FT if us else 1.0) / 86400.0, 1e-8
        if order == 0:
            # mass per AREA per day: a quantity per ft2 is DIVIDED by the m2 in a ft2
            return m / (FT * FT if us else 1.0) / 86400.0, 1e-8
        return 1.0, 1e-8
    if param == "WaterAge":
        return 3600.0, 1e-8
    raise KeyError(param)


def cases(tier):
    out = _cases()
    if tier == "thorough":
        for c in out:
            c["values"] = "T"
    return out


def _cases():
    out = []
    for fu in FLOW:
        for p in HYD:
            for dw in (False, True):
                out.append({"kind": "hyd", "param": p, "flow_units": fu, "darcy_weisbach": dw})
        for p in QUAL:
            for mass in MASS:
                for order in (0, 1, 2):
                    out.append({"kind": "qual", "param": p, "flow_units": fu, "mass": mass, "order": order})
    return out


def close(a, b, rel=1e-12):
    return abs(a - b) <= rel * max(abs(a), abs(b)) + 1e-300


def run_case(spec):
    import numpy as np
    VALUES = VALUES_T if spec.get("values") == "T" else globals()["VALUES"]
    from wntr.epanet import util as U
    fu = U.FlowUnits[spec["flow_units"]]
    viol = []
    tag = "%s:%s" % (spec["kind"], spec["param"])

    def bad(kind, what, detail=None):
        viol.append({"key": "%s:%s" % (kind, tag), "what": "%s %s" % (what, spec), "detail": detail})

    if spec["kind"] == "hyd":
        param = U.HydParam[spec["param"]]
        kw = {"darcy_weisbach": spec["darcy_weisbach"]}
        fref, tol = ref_hyd(spec["param"], spec["flow_units"], spec["darcy_weisbach"]), 1e-8
    else:
        param = U.QualParam[spec["param"]]
        kw = {"mass_units": U.MassUnits[spec["mass"]], "reaction_order": spec["order"]}
        fref, tol = ref_qual(spec["param"], spec["flow_units"], spec["mass"], spec["order"])
    to = lambda x: U.to_si(fu, x, param, **kw)
    fr = lambda x: U.from_si(fu, x, param, **kw)
    n = 0
    # factor
    f = float(to(1.0))
    if fref is not None:
        n += 1
        if not close(f, fref, tol):
            bad("factor", "to_si(1) = %.12g, reference %.12g" % (f, fref))
        g = float(fr(1.0))
        if not close(g, 1.0 / fref, tol):
            bad("factor-from", "from_si(1) = %.12g, reference %.12g" % (g, 1.0 / fref))
    elif spec["kind"] == "qual":
        # mass ratio must still be exact:  factor(mass)/factor(kg) == MASS[mass]
        fk = float(U.to_si(fu, 1.0, param, mass_units=U.MassUnits.kg, reaction_order=spec["order"]))
        n += 1
        if not close(f / fk, MASS[spec["mass"]], 1e-9):
            bad("mass-ratio", "factor ratio %.12g vs %.12g" % (f / fk, MASS[spec["mass"]]))
    # scalars: inverse + homogeneity + additivity
    for v in VALUES:
        for x in (v, int(v) if float(v).is_integer() else v):
            a = to(x)
            b = fr(a)
            c = to(fr(x))
            n += 2
            if not (close(float(b), float(x)) and close(float(c), float(x))):
                bad("inverse", "from_si(to_si(x)) != x for x=%r: %r / %r" % (x, b, c))
            if not close(float(a), f * float(x), 1e-12):
                bad("linear", "to_si(%r)=%r is not factor*x=%r" % (x, a, f * x))
    for x, y, al, be in ((1.0, -2.5, 2.0, 3.0), (12345.678, 1e-6, -1.5, 0.25)):
        n += 2
        if not close(float(to(al * x + be * y)), al * float(to(x)) + be * float(to(y)), 1e-11):
            bad("linear", "to_si not additive at (%r,%r)" % (x, y))
        if not close(float(fr(al * x + be * y)), al * float(fr(x)) + be * float(fr(y)), 1e-11):
            bad("linear", "from_si not additive at (%r,%r)" % (x, y))
    # containers
    lst = list(VALUES)
    arr = np.array(VALUES)
    dct = {"n%d" % (len(VALUES) - i): v for i, v in enumerate(VALUES)}          # keys in descending order
    dint = {(7 * i + 3) % 17: v for i, v in enumerate(VALUES)}                   # integer keys in no order
    for name, fn in (("to_si", to), ("from_si", fr)):
        scal = [float(fn(v)) for v in VALUES]
        for cname, cont in (("list", lst), ("ndarray", arr), ("dict", dct), ("dict-intkeys", dint), ("intlist", [0, 1, 3])):
            n += 1
            try:
                out = fn(cont)
            except Exception as e:
                bad("container-%s" % cname, "%s raises %s: %s on a %s" % (name, type(e).__name__, e, cname))
                continue
            if cname in ("list", "intlist"):
                exp = scal if cname == "list" else [float(fn(v)) for v in (0, 1, 3)]
                ok = isinstance(out, list) and len(out) == len(exp) and all(close(float(o), e) for o, e in zip(out, exp))
            elif cname == "ndarray":
                ok = isinstance(out, np.ndarray) and out.shape == arr.shape and all(close(float(o), e) for o, e in zip(out, scal))
            else:
                ok = isinstance(out, dict) and set(out.keys()) == set(cont.keys()) and \
                    all(close(float(out[k]), e) for k, e in zip(cont, scal))
            if not ok:
                bad("container-%s" % cname, "%s(%s) returned %r" % (name, cname, out))
        if spec.get("values") == "T":
            a2 = np.array(VALUES[:12]).reshape(3, 4)
            n += 1
            try:
                o2 = fn(a2)
                if not (isinstance(o2, np.ndarray) and o2.shape == (3, 4) and all(close(float(o), float(fn(float(e)))) for o, e in zip(o2.ravel(), a2.ravel()))):
                    bad("container-ndarray2d", "%s(3x4 array) returned %r" % (name, o2))
            except Exception as e:
                bad("container-ndarray2d", "%s raises %s: %s on a 3x4 array" % (name, type(e).__name__, e))
        # the inputs must not be modified in place
        if lst != VALUES or list(arr) != VALUES or list(dct.values()) != VALUES or list(dint.values()) != VALUES:
            bad("inplace", "%s modified its argument" % name)
    nontrivial = (fref is not None and fref != 1.0) or (fref is None)
    return {"viol": viol, "nontrivial": nontrivial, "outcome": "%.6g" % f, "counts": {"comparisons": n}}
