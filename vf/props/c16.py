"""C16 - runs terminate with well-formed results and never hide a failed step (fault enumeration)."""
import itertools, math
from ..net import *

ID = "C16"
LEVEL = "fault_enumeration"
RULE = ("9 small models (chain; head pump driven beyond its curve; loop with tank; pump + tank with level controls that force re-solves; PDD; isolated part; report "
        "step 2 h with 1 h hydraulic step; 'ALL' reporting with an off-grid time control).  For each the fault-free run is "
        "recorded (N nonlinear solves incl. re-solves).  EVERY single fault = (solve index k in 1..N) x kind {iteration limit: the "
        "k-th NewtonSolver.solve runs with maxiter=1 (also with the line search off / starting after the limit, maxiter=2); singular Jacobian: the k-th solve sees a Jacobian with a zeroed row (from its first or from its second iteration on), which "
        "makes spsolve raise the library's MatrixRankWarning; line-search failure: BT_MAXITER=1 and a perturbed start} x "
        "convergence_error {False, True} x backup solver {none, succeeding, failing too}; trial-limit faults: trials {0, 1} and two "
        "mutually contradicting pressure controls; fault-free shape family: 3 (7) models x duration {0, < step, off grid, ...} x hydraulic step {1 h, 30 min, 45 min} x report step {= step, 2 h, 90 min, 15 min, ALL}; the same clause for runs paused at {0,1,2,3,4 h} and continued (report step 2x / 3x the hydraulic step, equal, ALL).  thorough adds every PAIR of faults k1 < k2 with a succeeding backup and "
        "30-min steps; scipy.optimize.fsolve as solver (with and without Jacobian) and as backup of an iteration-limited Newton solver.  non-trivial: the injected fault really made the k-th solve return SolverStatus.error")
ASSUMPTIONS = ["faults are injected by wrapping NewtonSolver.solve / Model.evaluate_jacobian in the harness process; the library's own error paths are executed",
               "termination is judged against a 60 s wall-clock horizon per execution"]


def models():
    M = {}
    M["chain"] = spec([R("R"), J("J1"), J("J2", 5.0)], [P("p1", "R", "J1"), P("p2", "J1", "J2")], OPTS(dur=4 * 3600))
    M["looptank"] = spec([R("R"), J("J1"), J("J2", 5.0, [[0.03, "P1", None]]), T("T")],
                         [P("p1", "R", "J1"), P("p2", "J1", "J2"), P("p3", "J2", "T"), P("p4", "J1", "T", L=900.0)],
                         OPTS(dur=5 * 3600), patterns={"P1": [1.0, 2.0, 0.5]})
    M["pumpctl"] = spec([R("R", 10.0), J("J1"), J("J2", 5.0, [[0.02, None, None]]), T("T", elev=30.0, init=2.0, mn=0.5, mx=5.0, diam=6.0)],
                        [HP("pu", "R", "J1", [[0.05, 40.0]]), P("p2", "J1", "J2"), P("p3", "J2", "T")], OPTS(dur=6 * 3600),
                        controls=[{"kind": "level", "node": "T", "rel": ">", "thr": 3.0, "link": "pu", "value": "CLOSED"},
                                  {"kind": "level", "node": "T", "rel": "<", "thr": 1.5, "link": "pu", "value": "OPEN"}])
    M["pdd"] = spec([R("R", 25.0), J("J1"), J("J2", 8.0, [[0.03, None, None]])], [P("p1", "R", "J1"), P("p2", "J1", "J2", D=0.15)],
                    OPTS(dur=3 * 3600, dm="PDD", pmin=0.0, preq=20.0, pexp=0.5))
    # a head pump that the peak demand drives beyond the flow at which its curve reaches zero head (the run only warns)
    M["pump_overdriven"] = spec([R("R", 30.0), J("J1", 0.0, [[0.0, None, None]]), J("J2", 2.0, [[0.03, "PK", None]])],
                                [HP("pu", "R", "J1", [[0.05, 20.0]]), P("p2", "J1", "J2", L=100.0)], OPTS(dur=3 * 3600), patterns={"PK": [1.0, 1.0, 6.0, 1.0]})
    M["isolated"] = spec([R("R"), J("J1"), J("J2", 5.0), J("J3", 2.0)],
                         [P("p1", "R", "J1"), P("p2", "J1", "J2"), P("p3", "J2", "J3", status="CLOSED")], OPTS(dur=3 * 3600),
                         controls=[{"kind": "time", "t": 7200, "link": "p3", "value": "OPEN"}])
    M["rep2h"] = spec([R("R"), J("J1"), J("J2", 5.0), T("T")], [P("p1", "R", "J1"), P("p2", "J1", "J2"), P("p3", "J2", "T")],
                      OPTS(dur=6 * 3600, rep=7200))
    M["all_offgrid"] = spec([R("R"), J("J1"), J("J2", 5.0), T("T")], [P("p1", "R", "J1"), P("p2", "J1", "J2"), P("p3", "J2", "T")],
                            OPTS(dur=4 * 3600, rep="ALL"), controls=[{"kind": "time", "t": 4800, "link": "p2", "value": "CLOSED"},
                                                                      {"kind": "time", "t": 9000, "link": "p2", "value": "OPEN"}])
    # a check valve against the flow and a pressure control: both act post-solve and force re-solves (trials)
    M["resolve"] = spec([R("R"), J("J1"), J("J2", 5.0), J("J3", 2.0)],
                        [P("p1", "R", "J1"), P("p2", "J1", "J2"), P("p3", "J2", "J1", L=600.0, cv=True), P("p4", "J2", "J3")],
                        OPTS(dur=3 * 3600), controls=[{"kind": "pressure", "node": "J3", "rel": ">", "thr": 5.0, "link": "p4", "value": "CLOSED"}])
    return M


class Injector(object):
    """wraps NewtonSolver.solve (and evaluate_jacobian) for one run; faults: {call index -> kind}"""

    def __init__(self, faults):
        self.faults = faults
        self.calls = []      # (index, sim_time, status int, faulted kind or None)
        self.n = 0
        self.wn = None

    def __enter__(self):
        import wntr
        from wntr.sim import solvers
        from wntr.sim.aml import aml
        self.cls = solvers.NewtonSolver
        self.orig = self.cls.solve
        inj = self

        def solve(slf, model, ostream=None):
            inj.n += 1
            k = inj.n
            kind = inj.faults.get(k)
            t = inj.wn.sim_time if inj.wn is not None else None
            if kind in ("maxiter_nobt", "maxiter_btlate"):
                # the same iteration-limit fault with the line search switched off / starting later than the limit
                # (documented solver options BACKTRACKING, BT_START_ITER)
                slf.maxiter = 2
                if kind == "maxiter_nobt":
                    slf.bt = False
                else:
                    slf.bt_start_iter = 50
                x = model.get_x()
                model.load_var_values_from_x(x * 3.0 + 2.0)
            if kind == "maxiter":
                slf.maxiter = 1
                # make sure the start is not already converged: shift every unknown a little
                x = model.get_x()
                model.load_var_values_from_x(x + 1e-3)
            elif kind == "linesearch":
                slf.bt_maxiter = 1
                slf.maxiter = 3
                x = model.get_x()
                model.load_var_values_from_x(x * 5.0 + 3.0)
            if kind in ("singular", "singular_late"):
                x = model.get_x()
                model.load_var_values_from_x(x + (1e-3 if kind == "singular" else 0.5))
                oj = model.evaluate_jacobian
                ncall = [0]

                def bad(x=None):
                    ncall[0] += 1
                    J = oj(x)
                    if kind == "singular_late" and ncall[0] == 1:
                        return J          # the first Newton iteration is healthy, the matrix degenerates afterwards
                    J = J.tolil()
                    J[0, :] = 0.0
                    return J.tocsr()
                model.evaluate_jacobian = bad
                try:
                    r = inj.orig(slf, model, ostream)
                finally:
                    del model.evaluate_jacobian
            else:
                r = inj.orig(slf, model, ostream)
            inj.calls.append((k, t, int(r[0]), kind))
            return r
        self.cls.solve = solve
        return self

    def __exit__(self, *a):
        self.cls.solve = self.orig


def run_model(s, faults, convergence_error, backup, reuse=None):
    """returns dict(obs) of one real run; reuse = (wn, sim) of an earlier run: the model is reset and the SAME simulator
    object runs again."""
    import wntr, warnings, numpy as np
    from wntr.sim.solvers import NewtonSolver
    if reuse is None:
        wn = build(s)
        sim = wntr.sim.WNTRSimulator(wn)
    else:
        wn, sim = reuse
        wn.reset_initial_values()
    out = {"raised": None, "warnings": [], "error_code": None, "res": None}
    with Injector(faults) as inj:
        inj.wn = wn
        with warnings.catch_warnings(record=True) as w:
            warnings.simplefilter("always")
            # keep the library's own filter (wntr/sim/solvers.py turns the singular-matrix warning into an exception)
            import scipy.sparse.linalg as spl
            warnings.filterwarnings("error", "Matrix is exactly singular", spl.MatrixRankWarning)
            try:
                res = sim.run_sim(convergence_error=convergence_error, backup_solver=NewtonSolver if backup else None)
                out["res"] = res
                out["error_code"] = res.error_code
            except RuntimeError as e:
                out["raised"] = "RuntimeError: " + str(e)[:120]
        out["warnings"] = [str(x.message) for x in w]
    out["calls"] = inj.calls
    out["wn"] = wn
    out["sim"] = sim
    return out


def wellformed(s, wn, res, solved_times=None):
    """violations of the shape clause"""
    import numpy as np
    v = []
    rep = s["opts"]["rep"]
    idx0 = None
    nn = sorted(n["n"] for n in s["nodes"])
    ln = sorted(l["n"] for l in s["links"])
    for grp, tabs, names in (("node", res.node, nn), ("link", res.link, ln)):
        for k, df in tabs.items():
            idx = list(df.index)
            if idx0 is None:
                idx0 = idx
            if idx != idx0:
                v.append({"key": "shape:index-differs", "what": "%s[%s] has index %s, other tables %s" % (grp, k, idx[:6], idx0[:6])})
            if sorted(df.columns) != names:
                v.append({"key": "shape:columns", "what": "%s[%s] has columns %s, model elements %s" % (grp, k, list(df.columns), names)})
            if len(df) and not np.isfinite(df.values.astype(float)).all():
                v.append({"key": "shape:not-finite", "what": "%s[%s] contains non-finite entries" % (grp, k)})
    idx0 = idx0 or []
    if any(int(t) != t for t in idx0) or any(b <= a for a, b in zip(idx0, idx0[1:])):
        v.append({"key": "shape:index-not-increasing", "what": "time index %s is not strictly increasing integers" % idx0})
    if rep != "ALL" and any(t % rep for t in idx0):
        v.append({"key": "shape:off-report-grid", "what": "time index %s is not on the report grid (step %s)" % (idx0, rep)})
    return v, idx0


def same_prefix(res, ref, times, tol):
    import numpy as np
    for grp in ("node", "link"):
        a, b = getattr(res, grp), getattr(ref, grp)
        for k in b:
            x = a[k].loc[times].values.astype(float) if len(times) else np.zeros((0,))
            y = b[k].loc[times][a[k].columns].values.astype(float) if len(times) else np.zeros((0,))
            if x.shape != y.shape or (x.size and np.abs(x - y).max() > tol):
                d = float(np.abs(x - y).max()) if x.shape == y.shape and x.size else float("nan")
                return "%s[%s] differs from the fault-free run by %.3g on the steps %s" % (grp, k, d, times[:6])
    return None


def cases(tier):
    out = []
    for name in models():
        out.append({"model": name, "mode": "enumerate", "hyd": 3600})
        if tier == "thorough":
            out.append({"model": name, "mode": "enumerate", "hyd": 1800})
            out.append({"model": name, "mode": "pairs", "hyd": 3600})
    for tr in (0, 1, 2):
        out.append({"model": "resolve", "mode": "trials", "trials": tr})
        out.append({"model": "pumpctl", "mode": "trials", "trials": tr})
    out.append({"model": "contradiction", "mode": "contradiction"})
    # one simulator object, two runs: the first with a backup solver that rescues a faulted solve, the second (after a reset)
    # without backup and with the same fault - nothing of the first call's arguments may survive into the second
    for name in ("chain", "looptank", "pumpctl") if tier == "quick" else tuple(models()):
        out.append({"model": name, "mode": "reuse"})
    # shape of the fault-free result tables over the time options: duration (zero, shorter than a step, off the grid), hydraulic
    # step, report step (equal, multiple, not a multiple of the hydraulic step, 'ALL')
    durs = (0, 1800, 3600, 16200, 21600) if tier == "quick" else (0, 1, 1800, 3600, 5400, 16200, 21600, 30000)
    for name in ("looptank", "pumpctl", "all_offgrid", "pump_overdriven") if tier == "quick" else ("chain", "looptank", "pumpctl", "pdd", "isolated", "all_offgrid", "resolve", "pump_overdriven"):
        for dur, hyd, rep in itertools.product(durs, (3600, 1800, 2700), (None, 7200, 5400, 900, "ALL")):
            out.append({"model": name, "mode": "shape", "dur": dur, "hyd": hyd, "rep": rep})
    # the documented SciPy solver (scipy.optimize.fsolve) as the solver, and as the backup of a Newton solver whose every solve
    # hits the iteration limit: the run completes with well-formed tables that equal the Newton results
    for name in ("chain", "looptank", "pumpctl") if tier == "quick" else ("chain", "looptank", "pumpctl", "pdd", "isolated"):
        for how in ("solver", "solver-with-jacobian", "backup"):
            out.append({"model": name, "mode": "scipy", "how": how})
    # the same shape clause for a run that is paused and continued (a new simulator on the same model): every part is
    # well-formed and on the report grid of the WHOLE run, also when the pause falls between two report instants
    for name in ("looptank", "pumpctl") if tier == "quick" else ("chain", "looptank", "pumpctl", "pdd", "all_offgrid"):
        for pause, (hyd, rep) in itertools.product((0, 3600, 7200, 10800, 14400), ((3600, 7200), (3600, 10800), (1800, 3600), (3600, None), (3600, "ALL"))):
            out.append({"model": name, "mode": "shape_paused", "dur": 21600, "pause": pause, "hyd": hyd, "rep": rep})
    return out


def get_spec(c):
    s = clone(models()[c["model"]])
    if c.get("hyd") and c["hyd"] != 3600:
        s["opts"]["hyd"] = c["hyd"]
    return s


def judge_fault(s, ref, faults, ce, backup, counts, tag):
    """runs one faulted execution and returns violations."""
    nf = {k: v for k, v in faults.items()}
    if backup == "fails":
        for k in list(faults):
            nf[k + 1] = faults[k]          # the backup's own solve (the next call) is faulted as well
    o = run_model(s, nf, ce, backup is not None)
    viol = []
    k1 = min(faults)
    eff = [c for c in o["calls"] if c[3] is not None and c[2] == 0]
    first_fail = next((c for c in o["calls"] if c[2] == 0), None)
    counts["executions"] = counts.get("executions", 0) + 1
    if not eff:
        counts["fault_not_effective"] = counts.get("fault_not_effective", 0) + 1
    # does the step fail for good?  (primary failed and no backup call succeeded right after)
    failed_for_good = None
    calls = o["calls"]
    i = 0
    while i < len(calls):
        c = calls[i]
        if c[2] == 1:
            i += 1
            continue
        # the primary solve failed: run_sim calls the backup (the very next call) if there is one
        if backup is not None and i + 1 < len(calls) and calls[i + 1][2] == 1:
            i += 2
            continue
        failed_for_good = c
        break
    desc = "%s faults=%s convergence_error=%s backup=%s" % (tag, faults, ce, backup)
    if failed_for_good is not None:
        counts["failing_runs"] = counts.get("failing_runs", 0) + 1
        tfail = failed_for_good[1]
        if ce:
            if o["raised"] is None:
                viol.append({"key": "hidden:no-exception", "what": "%s: the solve at t=%s failed but run_sim(convergence_error=True) returned normally" % (desc, tfail)})
            return viol, bool(eff)
        if o["raised"] is not None:
            viol.append({"key": "unexpected-exception", "what": "%s: run_sim(convergence_error=False) raised %s" % (desc, o["raised"])})
            return viol, bool(eff)
        if o["error_code"] is None:
            viol.append({"key": "hidden:error_code-not-set", "what": "%s: the solve at t=%s failed but results.error_code is None" % (desc, tfail)})
        if not any("converge" in w.lower() for w in o["warnings"]):
            viol.append({"key": "hidden:no-warning", "what": "%s: the solve at t=%s failed but no warning was issued (%s)" % (desc, tfail, o["warnings"][:2])})
        wv, idx = wellformed(s, o["wn"], o["res"])
        viol += wv
        ref_idx = list(ref["idx"])
        exp = [t for t in ref_idx if t < tfail]
        if idx != exp:
            viol.append({"key": "partial:steps", "what": "%s: reported steps %s, the fault-free steps before the failing instant %s are %s" % (desc, idx, tfail, exp)})
        elif not wv:
            m = same_prefix(o["res"], ref["res"], exp, 1e-9)
            if m:
                viol.append({"key": "partial:values", "what": "%s: %s" % (desc, m)})
    else:
        counts["completing_runs"] = counts.get("completing_runs", 0) + 1
        if o["raised"] is not None:
            viol.append({"key": "unexpected-exception", "what": "%s: every failing solve was rescued by the backup solver but run_sim raised %s" % (desc, o["raised"])})
            return viol, bool(eff)
        if o["error_code"] is not None:
            viol.append({"key": "spurious-error_code", "what": "%s: the run completed but error_code=%r" % (desc, o["error_code"])})
        wv, idx = wellformed(s, o["wn"], o["res"])
        viol += wv
        if idx != list(ref["idx"]):
            viol.append({"key": "rescued:steps", "what": "%s: reported steps %s, fault-free %s" % (desc, idx, list(ref["idx"]))})
        elif not wv:
            m = same_prefix(o["res"], ref["res"], idx, 1e-6)
            if m:
                viol.append({"key": "rescued:values", "what": "%s: %s" % (desc, m)})
    return viol, bool(eff)


def run_case(c):
    import wntr
    viol, counts = [], {}
    if c["mode"] == "contradiction":
        # two pressure controls that can never both be satisfied: the post-solve loop must give up after `trials`
        s = spec([R("R"), J("J1"), J("J2", 5.0)], [P("p1", "R", "J1"), P("p2", "J1", "J2")], OPTS(dur=2 * 3600, trials=8),
                 controls=[{"kind": "pressure", "node": "J1", "rel": ">", "thr": 10.0, "link": "p2", "value": "CLOSED", "name": "a"},
                           {"kind": "pressure", "node": "J1", "rel": ">", "thr": 9.0, "link": "p2", "value": "OPEN", "name": "b", "prio": 3}])
        for ce in (False, True):
            o = run_model(s, {}, ce, False)
            counts["executions"] = counts.get("executions", 0) + 1
            if o["raised"] is None and o["res"] is not None:
                wv, idx = wellformed(s, o["wn"], o["res"])
                viol += wv
                if o["error_code"] is not None and not any("trial" in w.lower() or "converge" in w.lower() for w in o["warnings"]):
                    viol.append({"key": "hidden:no-warning", "what": "contradicting controls: error_code set but no warning"})
        return {"viol": viol, "nontrivial": True, "outcome": "contradiction", "counts": counts}
    s = get_spec(c)
    if c["mode"] == "shape":
        hyd = c["hyd"]
        rep = hyd if c["rep"] is None else c["rep"]
        s["opts"].update(dur=c["dur"], hyd=hyd, rep=rep, pat=min(s["opts"].get("pat", 3600), hyd))
        o = run_model(s, {}, False, False)
        counts["executions"] = 1
        if o["raised"] is not None or o["error_code"] is not None:
            return {"viol": [{"key": "shape:run-fails", "what": "fault-free run with duration %d, hydraulic step %d, report step %s does not complete: %s %s" % (c["dur"], hyd, rep, o["raised"], o["warnings"][:1])}], "nontrivial": True, "outcome": "shape", "counts": counts}
        s_eff = clone(s)
        adjusted = rep != "ALL" and rep % hyd != 0
        if rep != "ALL" and rep < hyd:
            # documented behaviour: the hydraulic step is reduced to the report step, and the run says so
            if not any("hydraulic timestep" in w.lower() for w in o["warnings"]):
                viol.append({"key": "shape:hydraulic-step-adjusted-silently", "what": "report step %d is shorter than the hydraulic step %d and no warning says how it was adjusted" % (rep, hyd)})
            hyd = rep
        elif adjusted:
            # documented behaviour: the report step is reduced to a multiple of the hydraulic step, and the run says so
            s_eff["opts"]["rep"] = max(hyd, rep // hyd * hyd)
            if not any("report timestep" in w.lower() for w in o["warnings"]):
                viol.append({"key": "shape:report-step-adjusted-silently", "what": "report step %d is not a multiple of the hydraulic step %d and no warning says how it was adjusted" % (rep, hyd)})
        wv, idx = wellformed(s_eff, o["wn"], o["res"])
        viol += wv
        last = c["dur"] // hyd * hyd
        solved = sorted(set(int(t) for _, t, _, _ in o["calls"]))
        if rep == "ALL":
            if idx != solved:
                viol.append({"key": "shape:ALL-not-every-solved-step", "what": "'ALL' reporting gives %s, solved instants %s (duration %d, step %d)" % (idx, solved, c["dur"], hyd)})
        else:
            exp = list(range(0, last + 1, s_eff["opts"]["rep"]))
            if idx != exp:
                viol.append({"key": "shape:report-grid", "what": "duration %d, hydraulic step %d, report step %s: reported %s, report grid %s" % (c["dur"], hyd, rep, idx, exp)})
        if solved and (solved[0] != 0 or solved[-1] != last or any(t % hyd == 0 and t not in solved for t in range(0, last + 1, hyd))):
            viol.append({"key": "shape:hydraulic-grid", "what": "duration %d, hydraulic step %d: solved instants %s do not cover the hydraulic grid up to %d" % (c["dur"], hyd, solved, last)})
        return {"viol": viol[:4], "nontrivial": c["dur"] >= hyd, "outcome": "shape:%s" % ("ALL" if rep == "ALL" else ("adjusted" if adjusted else "grid")), "counts": counts}
    if c["mode"] == "scipy":
        import wntr, warnings, scipy.optimize
        from wntr.sim.solvers import NewtonSolver
        kw = {"solver": {"solver": scipy.optimize.fsolve},
              "solver-with-jacobian": {"solver": scipy.optimize.fsolve, "solver_options": {"use_jac": True}},
              "backup": {"solver": NewtonSolver, "solver_options": {"MAXITER": 1}, "backup_solver": scipy.optimize.fsolve}}[c["how"]]
        ref = run_model(s, {}, False, False)
        wn = build(s)
        counts["executions"] = 2
        with warnings.catch_warnings(record=True) as w:
            warnings.simplefilter("always")
            try:
                res = wntr.sim.WNTRSimulator(wn).run_sim(**kw)
            except Exception as e:  # noqa
                return {"viol": [{"key": "scipy:%s:raises:%s" % (c["how"], type(e).__name__), "what": "run_sim(%s) raised %s: %s" % (c["how"], type(e).__name__, str(e)[:150])}],
                        "nontrivial": True, "outcome": "scipy:raised", "counts": counts}
        if res.error_code is not None:
            # a SciPy solve that does not converge is an honest failure (warning + error_code): judged like any other
            if not any("converge" in str(x.message).lower() for x in w):
                viol.append({"key": "hidden:no-warning", "what": "scipy %s: error_code set but no warning" % c["how"]})
            return {"viol": viol, "nontrivial": False, "outcome": "scipy:not-converged", "counts": counts}
        wv, idx = wellformed(s, wn, res)
        viol += wv
        if ref["res"] is not None and ref["error_code"] is None and not viol:
            m = same_prefix(res, ref["res"], idx, 1e-4)
            if m:
                viol.append({"key": "scipy:%s:differs" % c["how"], "what": "run with scipy.optimize.fsolve as %s differs from the Newton run: %s" % (c["how"], m)})
        return {"viol": viol[:3], "nontrivial": True, "outcome": "scipy:%s" % c["how"], "counts": counts}
    if c["mode"] == "shape_paused":
        import wntr, warnings
        hyd = c["hyd"]
        rep = hyd if c["rep"] is None else c["rep"]
        s["opts"].update(dur=c["pause"], hyd=hyd, rep=rep, pat=min(s["opts"].get("pat", 3600), hyd))
        wn = build(s)
        parts = []
        for stop in (c["pause"], c["dur"]):
            wn.options.time.duration = stop
            with warnings.catch_warnings():
                warnings.simplefilter("ignore")
                parts.append(wntr.sim.WNTRSimulator(wn).run_sim())
        counts["executions"] = 2
        if any(r.error_code is not None for r in parts):
            return {"viol": [], "nontrivial": False, "outcome": "shape_paused:not-converged", "counts": counts}
        for k, r in enumerate(parts):
            wv, idx = wellformed(s, wn, r)
            for x in wv:
                x["key"] = "paused:" + x["key"]; x["what"] = "part %d of a run paused at %d (hydraulic step %d, report step %s): %s" % (k + 1, c["pause"], hyd, rep, x["what"])
            viol += wv
            if rep != "ALL":
                exp = [t for t in range(0, c["dur"] + 1, rep) if (t <= c["pause"] if k == 0 else t > c["pause"])]
                if idx != exp:
                    viol.append({"key": "paused:shape:report-grid", "what": "part %d of a run paused at %d (hydraulic step %d, report step %s) reports %s, expected %s" % (k + 1, c["pause"], hyd, rep, idx, exp)})
            elif k == 1 and idx and idx[0] <= c["pause"]:
                viol.append({"key": "paused:shape:revisits", "what": "continued part starts at %s, pause at %d" % (idx[:2], c["pause"])})
        return {"viol": viol[:4], "nontrivial": c["pause"] > 0, "outcome": "shape_paused:%s" % ("ALL" if rep == "ALL" else ("on-grid" if c["pause"] % rep == 0 else "off-grid")), "counts": counts}
    if c["mode"] == "reuse":
        r0 = run_model(s, {}, False, False)
        N = len(r0["calls"])
        ridx = [int(t) for t in r0["res"].node["head"].index]
        for k in sorted(set([1, max(1, N // 2), N])):
            for kind in ("maxiter", "singular"):
                first = run_model(s, {k: kind}, False, True)                       # rescued by the backup solver
                counts["executions"] = counts.get("executions", 0) + 2
                if first["raised"] or first["error_code"] is not None:
                    continue
                for ce in (False, True):
                    second = run_model(s, {k: kind}, ce, False, reuse=(first["wn"], first["sim"]))
                    failed_at = [t for (kk, t, stt, knd) in second["calls"] if knd and stt != 1]
                    if not failed_at:
                        continue        # the fault did not bite this time (e.g. already converged start)
                    if ce:
                        if second["raised"] is None:
                            viol.append({"key": "reuse:hidden:no-exception", "what": "second run on the same simulator (no backup solver, fault %s at solve %d): convergence_error=True returned normally" % (kind, k)})
                    else:
                        if second["raised"] is not None:
                            viol.append({"key": "reuse:unexpected-exception", "what": "second run raised %s" % second["raised"]})
                        elif second["error_code"] is None:
                            idx = [int(t) for t in second["res"].node["head"].index]
                            viol.append({"key": "reuse:hidden:no-error-code", "what": "second run on the same simulator (no backup solver, fault %s at solve %d) reports no error and the steps %s; a fresh simulator stops at the failed step" % (kind, k, idx[:8])})
                    first = run_model(s, {k: kind}, False, True)
        seen, out_ = set(), []
        for v in viol:
            if v["key"] not in seen:
                seen.add(v["key"]); out_.append(v)
        return {"viol": out_, "nontrivial": True, "outcome": "reuse", "counts": counts}
    if c["mode"] == "trials":
        ref = run_model(s, {}, False, False)
        s2 = clone(s)
        s2["opts"]["trials"] = c["trials"]
        for ce in (False, True):
            o = run_model(s2, {}, ce, False)
            counts["executions"] = counts.get("executions", 0) + 1
            if o["raised"] is not None:
                if not ce:
                    viol.append({"key": "unexpected-exception", "what": "trials=%d: run_sim(convergence_error=False) raised %s" % (c["trials"], o["raised"])})
                continue
            wv, idx = wellformed(s2, o["wn"], o["res"])
            viol += wv
            ridx = [int(t) for t in ref["res"].node["head"].index]
            if o["error_code"] is None:
                if idx != ridx:
                    viol.append({"key": "trials:steps", "what": "trials=%d: completed without error but reports %s instead of %s" % (c["trials"], idx, ridx)})
            else:
                if ce:
                    viol.append({"key": "hidden:no-exception", "what": "trials=%d: trial limit exceeded but convergence_error=True returned normally" % c["trials"]})
                if not any("trial" in w.lower() for w in o["warnings"]):
                    viol.append({"key": "hidden:no-warning", "what": "trials=%d: error_code set but no warning about the trial limit (%s)" % (c["trials"], o["warnings"][:2])})
                if idx != ridx[:len(idx)]:
                    viol.append({"key": "partial:steps", "what": "trials=%d: reported steps %s are not a prefix of the fault-free steps %s" % (c["trials"], idx, ridx)})
                elif not wv:
                    m = same_prefix(o["res"], ref["res"], idx, 1e-9)
                    if m:
                        viol.append({"key": "partial:values", "what": "trials=%d: %s" % (c["trials"], m)})
        return {"viol": viol[:6], "nontrivial": True, "outcome": "trials", "counts": counts}
    # ---- fault-free reference
    r0 = run_model(s, {}, False, False)
    if r0["raised"] or r0["error_code"] is not None:
        return {"viol": [{"key": "reference-run-fails", "what": "the fault-free run of %s does not complete: %s %s" % (c["model"], r0["raised"], r0["warnings"][:1])}]}
    wv, idx = wellformed(s, r0["wn"], r0["res"])
    viol += wv
    ref = {"res": r0["res"], "idx": idx}
    N = len(r0["calls"])
    counts["solves_fault_free"] = N
    exp_idx = list(range(0, s["opts"]["dur"] + 1, s["opts"]["rep"])) if s["opts"]["rep"] != "ALL" else None
    if exp_idx is not None and idx != exp_idx:
        viol.append({"key": "shape:report-grid-incomplete", "what": "fault-free run reports %s, report grid is %s" % (idx, exp_idx)})
    if exp_idx is None:
        solved = sorted(set(int(t) for _, t, _, _ in r0["calls"]))
        if idx != solved:
            viol.append({"key": "shape:ALL-not-every-solved-step", "what": "'ALL' reporting gives %s, solved instants %s" % (idx, solved)})
    neff = 0
    if c["mode"] == "enumerate":
        for k in range(1, N + 1):
            for kind in ("maxiter", "singular", "singular_late", "linesearch", "maxiter_nobt", "maxiter_btlate"):
                for ce in (False, True):
                    for backup in (None, "succeeds", "fails"):
                        v, eff = judge_fault(s, ref, {k: kind}, ce, backup, counts, c["model"])
                        neff += 1 if eff else 0
                        viol += v
    else:
        for k1, k2 in itertools.combinations(range(1, N + 1), 2):
            # with a succeeding backup the call indices shift by one after the first rescued failure
            for kind in ("maxiter", "singular"):
                v, eff = judge_fault(s, ref, {k1: kind, k2 + 1: kind}, False, "succeeds", counts, c["model"])
                neff += 1 if eff else 0
                viol += v
    seen, out = set(), []
    for v in viol:
        if v["key"] not in seen:
            seen.add(v["key"]); out.append(v)
    return {"viol": out[:8], "nontrivial": neff > 0, "outcome": "%s:N=%d" % (c["model"], N), "counts": counts,
            "bulk": counts.get("executions", 0), "bulk_nontrivial": neff}


def run(run_, tier, seed):
    from .. import pool
    specs = cases(tier)
    run_.sample(specs)
    res = pool.run_cases(run_case, specs, seed=seed, chunksize=1)
    for s, r in zip(specs, res):
        run_.evaluations += r.get("bulk", (r.get("counts") or {}).get("executions", 1))
        run_.nontrivial_extra += r.get("bulk_nontrivial", 1 if r.get("nontrivial") else 0)
        o = r.get("outcome")
        if o:
            run_.outcomes[o] = run_.outcomes.get(o, 0) + 1
        for k, n in (r.get("counts") or {}).items():
            run_.count(k, n)
        for v in r.get("viol") or []:
            run_.violation(v["key"], v["what"], s, v.get("detail"))
    from ..main import recheck
    recheck(__import__("vf.props.c16", fromlist=["x"]), run_, specs, res, seed)
