"""C08 - leaks discharge Cd*A*sqrt(2*g*p) only while active and only at positive pressure; remove_leak removes them."""
import itertools, math
from ..net import *
from .c01 import balance_violations

ID = "C08"
LEVEL = "exploration"
RULE = ("network R-p1-J1-p2-J2-p3-T: leak site {J1, J2, T, J1+J2, J1+T} x area {1e-4, 5e-3} x Cd {0.75, 0.6, 1.0} x window "
        "{(0,None),(0,2h),(1h,3h),(1h20,2h40) off-grid,(None,None) never started,(2h,None)} x demand model {DD, PDD} x J1 elevation "
        "{0, above the HGL (negative pressure)} x history {add, add+remove, add+remove+add, run+reset+run (second run judged), run+remove_leak+reset+run} x hydraulic step {1h, 30min} x pipe orientation {as drawn, p2 reversed, p1+p3 reversed}; plus a leaking dead-end junction cut off from 2 h to 3 h by time controls on its only pipe; report "
        "'ALL'; fully crossed in quick except area x Cd (pairs {(1e-4,0.75),(5e-3,0.6),(5e-3,1.0)}), thorough crosses everything. "
        "oracle: formula inside the window at p>1e-4, ~0 at p<=0, exactly 0 outside, off-grid instants solved, node balance, "
        "remove_leak == never had a leak. non-trivial: some leak discharges > 1e-6 at some step and is off at another")

WINDOWS = [(0, None), (0, 7200), (3600, 10800), (4800, 9600), (None, None), (7200, None)]
# run-reset-run: simulate, reset_initial_values, simulate again (the second run is judged); run-remove: simulate with the
# leak, then remove_leak + reset (judged against the never-leaked model)
HIST = ["add", "add-remove", "add-remove-add", "run-reset-run", "run-remove"]


def base(dm, high, hyd):
    o = OPTS(dur=4 * 3600, hyd=hyd, rep="ALL", dm=dm)
    if dm == "PDD":
        o.update(pmin=0.0, preq=25.0, pexp=0.5)
    return spec([R("R", 50.0), J("J1", 70.0 if high else 0.0, [[0.005, None, None]]), J("J2", 5.0, [[0.02, None, None]]), T("T", elev=30.0, init=3.0, diam=15.0)],
                [P("p1", "R", "J1"), P("p2", "J1", "J2"), P("p3", "J2", "T")], o)


def cases(tier):
    out = []
    ac = [(1e-4, 0.75), (5e-3, 0.6), (5e-3, 1.0)] if tier == "quick" else list(itertools.product((1e-4, 5e-3), (0.75, 0.6, 1.0)))
    for sites, (area, cd), win, dm, high, hist, hyd, rev in itertools.product(
            (("J1",), ("J2",), ("T",), ("J1", "J2"), ("J1", "T")), ac, WINDOWS, ("DD", "PDD"), (False, True), HIST, (3600, 1800),
            ((), ("p2",), ("p1", "p3"))):
        if tier == "quick" and hyd == 1800 and (hist != "add" or high):
            continue
        if tier == "quick" and rev and (hist != "add" or hyd != 3600):
            continue
        if hist in ("run-reset-run", "run-remove") and (hyd != 3600 or rev or (tier == "quick" and (area, cd) != ac[0])):
            continue
        s = base(dm, high, hyd)
        for ln in rev:      # pipe orientation: a junction then has 0 or 2 links that start at it
            l = link(s, ln)
            l["a"], l["b"] = l["b"], l["a"]
        s["leaks"] = [{"node": n, "area": area * (1 + i), "cd": cd, "start": win[0], "end": win[1]} for i, n in enumerate(sites)]
        s["hist"] = hist
        s["id"] = {"sites": list(sites), "area": area, "cd": cd, "win": list(win), "dm": dm, "high": high, "hist": hist, "hyd": hyd, "rev": list(rev)}
        out.append(s)
    # gauge pressures of millimetres to centimetres (just above the 0.1 mm smoothing band): a leaking junction whose
    # elevation lies that far below the reservoir head, fed through a short wide pipe (no demand: the pressure is the offset)
    for off, (area, cd), dm in itertools.product((2e-4, 1e-3, 5e-3, 2e-2, 0.5), ac, ("DD", "PDD")):
        o = OPTS(dur=3600, hyd=3600, rep="ALL", dm=dm)
        if dm == "PDD":
            o.update(pmin=0.0, preq=25.0, pexp=0.5)
        s = spec([R("R", 50.0), J("J1", 50.0 - off, [[0.0, None, None]])], [P("p1", "R", "J1", L=1.0, D=2.0)], o)
        s["leaks"] = [{"node": "J1", "area": area * 1e-2, "cd": cd, "start": 0, "end": None}]
        s["hist"] = "add"
        s["id"] = {"sites": ["J1-shallow-%g" % off], "area": area * 1e-2, "cd": cd, "win": [0, None], "dm": dm, "high": False, "hist": "add", "hyd": 3600, "rev": []}
        out.append(s)
    # a leaking dead-end junction that is cut off from every source while its leak is active (its only pipe is closed at 2 h
    # and reopened at 3 h): reported pressure 0 => leak 0, and the formula again after reconnection
    for (area, cd), win, dm, hyd, rv in itertools.product(ac, WINDOWS, ("DD", "PDD"), (3600, 1800), (False, True)):
        s = base(dm, False, hyd)
        s["nodes"].append(J("J3", 2.0, [[0.004, None, None]]))
        s["links"].append(P("p4", "J3", "J2") if rv else P("p4", "J2", "J3"))
        s["controls"] = [{"kind": "time", "t": 2 * 3600, "link": "p4", "value": "CLOSED"}, {"kind": "time", "t": 3 * 3600, "link": "p4", "value": "OPEN"}]
        s["leaks"] = [{"node": "J3", "area": area, "cd": cd, "start": win[0], "end": win[1]}]
        s["hist"] = "add"
        s["id"] = {"sites": ["J3-cut-off-2h-3h"], "area": area, "cd": cd, "win": list(win), "dm": dm, "high": False, "hist": "add", "hyd": hyd, "rev": ["p4"] if rv else []}
        out.append(s)
    return out


def apply_history(wn, s):
    for lk in s["leaks"]:
        n = wn.get_node(lk["node"])
        if s["hist"] == "add":
            n.add_leak(wn, lk["area"], lk["cd"], lk["start"], lk["end"])
        elif s["hist"] == "add-remove":
            n.add_leak(wn, lk["area"], lk["cd"], lk["start"], lk["end"])
            n.remove_leak(wn)
        elif s["hist"] in ("run-reset-run", "run-remove"):
            n.add_leak(wn, lk["area"], lk["cd"], lk["start"], lk["end"])
        else:
            n.add_leak(wn, 2 * lk["area"], 0.5, 1800, 3000)
            n.remove_leak(wn)
            n.add_leak(wn, lk["area"], lk["cd"], lk["start"], lk["end"])


def run_case(s):
    import wntr
    viol, counts = [], {}
    wn = build(s)
    apply_history(wn, s)
    if s["hist"] in ("run-reset-run", "run-remove"):
        r = simulate(s, wn=wn)
        if r.error:
            return {"viol": viol, "nontrivial": False, "outcome": "not-converged", "counts": {"not_converged": 1}}
        if s["hist"] == "run-remove":
            for lk in s["leaks"]:
                wn.get_node(lk["node"]).remove_leak(wn)
        wn.reset_initial_values()
    removed = s["hist"] in ("add-remove", "run-remove")
    if removed:
        names = [c for c in wn.control_name_list]
        if names:
            viol.append({"key": "remove:control-left", "what": "after remove_leak the model still has controls %s" % names})
        d = wn.to_dict()
        for nd in d["nodes"]:
            if nd.get("leak"):
                viol.append({"key": "remove:dict", "what": "after remove_leak to_dict still shows a leak on %s" % nd["name"]})
    r = simulate(s, wn=wn)
    if r.error:
        return {"viol": viol, "nontrivial": False, "outcome": "not-converged", "counts": {"not_converged": 1}}
    balance_violations(s, r, viol, counts)
    leak, pres = r.node["leak_demand"], r.node["pressure"]
    on_seen = off_seen = False
    leaks = {} if removed else {lk["node"]: lk for lk in s["leaks"]}
    for n in leak:
        lk = leaks.get(n)
        for i, t in enumerate(r.times):
            v, p = float(leak[n][i]), float(pres[n][i])
            active = lk is not None and lk["start"] is not None and t >= lk["start"] and (lk["end"] is None or t < lk["end"])
            if not active:
                counts["inactive_checks"] = counts.get("inactive_checks", 0) + 1
                off_seen = off_seen or lk is not None
                if v != 0.0:
                    viol.append({"key": "leak-outside-window", "what": "node %s reports leak %.6g at t=%d but no leak is active (window %s, history %s)" % (n, v, t, lk and (lk["start"], lk["end"]), s["hist"])})
                    break
                continue
            counts["active_checks"] = counts.get("active_checks", 0) + 1
            f = lambda x: lk["cd"] * lk["area"] * math.sqrt(2 * G * x)
            if p > 1e-4:
                ok = abs(v - f(p)) <= 1e-6 + 1e-6 * f(p)
                if v > 1e-6:
                    on_seen = True
            elif p <= 0:
                ok = abs(v) <= 1e-6
            else:
                ok = -1e-6 <= v <= f(1e-4) + 1e-6
            if not ok:
                viol.append({"key": "leak-formula:%s" % ("tank" if n == "T" else "junction"), "what": "node %s t=%d p=%.6g leak=%.9g, Cd*A*sqrt(2gp)=%.9g" % (n, t, p, v, f(max(p, 0.0)))})
                break
        if lk and not removed:
            for inst in (lk["start"], lk["end"]):
                if inst is not None and 0 < inst <= s["opts"]["dur"] and inst not in r.times:
                    viol.append({"key": "leak-instant-not-solved", "what": "leak instant %d of node %s is not among the solved steps %s" % (inst, n, r.times)})
    if removed and not viol:
        s0 = clone(s); s0["leaks"] = []; s0["hist"] = "add"
        r0 = simulate(s0)
        counts["never_leaked_differential"] = 1
        if r0.times != r.times:
            viol.append({"key": "remove:differs", "what": "after remove_leak the solved steps are %s, never-leaked model %s" % (r.times, r0.times)})
        else:
            for k in ("head", "demand"):
                for n in r.node[k]:
                    if abs(r.node[k][n] - r0.node[k][n]).max() > 1e-9:
                        viol.append({"key": "remove:differs", "what": "after remove_leak %s at %s differs from the never-leaked model by %.3g" % (k, n, abs(r.node[k][n] - r0.node[k][n]).max())})
                        break
    return {"viol": viol[:3], "nontrivial": bool(on_seen and off_seen) or removed, "outcome": "on%d_off%d_%s" % (on_seen, off_seen, s["hist"]), "counts": counts}
