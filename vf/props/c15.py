"""C15 - the compiled model evaluator returns true residuals and Jacobian.

Part A (enum): every expression tree up to an operator bound is built with the library's operator overloading,
registered as a constraint, and its compiled residual / Jacobian row is compared at every point of a value grid with an
independent dual-number evaluation of the same tree (and with the library's own direct Python evaluation).
Part B (enum): conditional (piecewise) constraints with 1-3 inequality branches, values at / below / above each bound.
Part C (bfs): histories of add / remove constraint (attribute, ConstraintDict item, whole ConstraintDict), value changes and
set_structure over a pool of constraints that share a variable, a parameter, a Float leaf object and a sub-expression."""
import itertools, json, math

ID = "C15"
LEVEL = "model_checking"
RULE = ("E: 4 sub-expressions x 5 extensions by a new variable x 4 registration orders (the sub-expression used as a constraint after it was extended).  A: all expression trees with <= N operator nodes (N=2 over the full alphabet: binary + - * / ** in both operand "
        "orders incl. reflected forms with Python numbers, unary neg abs sign exp log sin cos tan asin acos atan, leaves x y p "
        "and constants 0 1 2 -1.5 0.5; N=3 over a reduced alphabet; thorough N=3 over a larger and N=4 over a reduced alphabet), "
        "each evaluated on the grid {-2,-0.5,0,0.5,1,3}^2 intersected with the reference's domain of definition; B: conditional "
        "constraints with 1-3 inequality branches x body pool, variable at/below/above every bound; C: explicit-state BFS over "
        "add/remove/value/set_structure histories of a 7-constraint pool with shared leaves and sub-expressions, residuals and "
        "Jacobian compared in every state. non-trivial (A): a tree with >= 1 operator that depends on a variable and is defined "
        "at >= 1 grid point; (C): a state with >= 2 live constraints reached through a removal")
ASSUMPTIONS = ["points of discontinuity are not judged: sign(0), d|x|/dx at 0, negative base with non-integer or variable exponent, base 0 with exponent < 1 or variable exponent, division by 0, log of <= 0, |arg| >= 1 for asin/acos",
               "sub-trees made only of constants are folded by Python before the library sees them and are skipped",
               "the Jacobian of a non-square history state is padded to square with one extra constraint over fresh variables (evaluate_jacobian requires n_cons == n_vars)"]

GRID = [-2.0, -0.5, 0.0, 0.5, 1.0, 3.0]
PVAL = 1.5
PVALS = [1.5, 2.5]
BIN = ["add", "sub", "mul", "div", "pow"]
UN = ["neg", "abs", "sign", "exp", "log", "sin", "cos", "tan", "asin", "acos", "atan"]


# ------------------------------------------------------------------------------------------------ reference (dual numbers)
class Undefined(Exception):
    pass


MAG = [0.0]


def _m(*vals):
    for v in vals:
        a = abs(v)
        if a > MAG[0]:
            MAG[0] = a


def ref_eval(t, x, y, p):
    """returns (value, d/dx, d/dy, depends_on_var); raises Undefined outside the judged domain.  MAG[0] collects the
    largest intermediate magnitude (values, derivatives and the partial products they are summed from): rounding in the
    library's differently associated derivative formulas is proportional to it."""
    r = _ref_eval(t, x, y, p)
    _m(r[0], r[1], r[2])
    return r


def _ref_eval(t, x, y, p):
    k = t[0]
    if k == "x":
        return x, 1.0, 0.0, True
    if k == "y":
        return y, 0.0, 1.0, True
    if k == "p":
        return p, 0.0, 0.0, False
    if k == "c":
        return t[1], 0.0, 0.0, False
    if k in BIN:
        a, ax, ay, av = ref_eval(t[1], x, y, p)
        b, bx, by, bv = ref_eval(t[2], x, y, p)
        dv = av or bv
        if k == "add":
            return a + b, ax + bx, ay + by, dv
        if k == "sub":
            return a - b, ax - bx, ay - by, dv
        if k == "mul":
            _m(ax * b, a * bx, ay * b, a * by)
            return a * b, ax * b + a * bx, ay * b + a * by, dv
        if k == "div":
            if b == 0:
                raise Undefined
            _m(ax / b, a * bx / (b * b), ay / b, a * by / (b * b))
            return a / b, (ax * b - a * bx) / (b * b), (ay * b - a * by) / (b * b), dv
        # pow
        if a < 0:
            if bv or b != int(b):
                raise Undefined
        if a == 0:
            if bv or b < 1:
                raise Undefined
        try:
            v = a ** b
            d1 = b * a ** (b - 1)
        except (OverflowError, ZeroDivisionError, ValueError):
            raise Undefined
        if isinstance(v, complex):
            raise Undefined
        if bv:
            lg = v * math.log(a)
            _m(d1 * ax, lg * bx, d1 * ay, lg * by)
            return v, d1 * ax + lg * bx, d1 * ay + lg * by, dv
        return v, d1 * ax, d1 * ay, dv
    a, ax, ay, av = ref_eval(t[1], x, y, p)
    try:
        if k == "neg":
            return -a, -ax, -ay, av
        if k == "abs":
            if a == 0 and av:
                raise Undefined
            s = 1.0 if a >= 0 else -1.0
            return abs(a), s * ax, s * ay, av
        if k == "sign":
            if a == 0:
                raise Undefined
            return (1.0 if a > 0 else -1.0), 0.0, 0.0, av
        if k == "exp":
            v = math.exp(a)
            return v, v * ax, v * ay, av
        if k == "log":
            if a <= 0:
                raise Undefined
            return math.log(a), ax / a, ay / a, av
        if k == "sin":
            return math.sin(a), math.cos(a) * ax, math.cos(a) * ay, av
        if k == "cos":
            return math.cos(a), -math.sin(a) * ax, -math.sin(a) * ay, av
        if k == "tan":
            c = math.cos(a)
            if abs(c) < 1e-6:
                raise Undefined
            return math.tan(a), ax / (c * c), ay / (c * c), av
        if k in ("asin", "acos"):
            if abs(a) >= 1:
                raise Undefined
            d = 1.0 / math.sqrt(1 - a * a)
            if k == "asin":
                return math.asin(a), d * ax, d * ay, av
            return math.acos(a), -d * ax, -d * ay, av
        if k == "atan":
            return math.atan(a), ax / (1 + a * a), ay / (1 + a * a), av
    except OverflowError:
        raise Undefined
    raise KeyError(k)


def depends(t):
    if t[0] in ("x", "y"):
        return True
    if t[0] in ("p", "c"):
        return False
    return any(depends(s) for s in t[1:])


def all_const(t):
    if t[0] == "c":
        return True
    if t[0] in ("x", "y", "p"):
        return False
    return all(all_const(s) for s in t[1:])


def has_const_subtree(t):
    """a non-leaf subtree made only of constants is folded by Python: the library never sees it."""
    if t[0] in ("x", "y", "p", "c"):
        return False
    if all_const(t):
        return True
    return any(has_const_subtree(s) for s in t[1:])


# ------------------------------------------------------------------------------------------------ library builder
def lib_build(t, X, Y, P, memo=None):
    """memo: build equal non-leaf sub-trees ONCE and reuse the library object (a shared sub-expression, i.e. a DAG)"""
    if memo is not None and t[0] not in ("x", "y", "p", "c"):
        if t not in memo:
            memo[t] = _lib_build(t, X, Y, P, memo)
        return memo[t]
    return _lib_build(t, X, Y, P, memo)


def has_repeat(t):
    seen, dup = set(), [False]

    def walk(s):
        if s[0] in ("x", "y", "p", "c"):
            return
        if s in seen:
            dup[0] = True
        seen.add(s)
        for c in s[1:]:
            walk(c)
    walk(t)
    return dup[0]


def _lib_build(t, X, Y, P, memo=None):
    from wntr.sim.aml import expr as E
    k = t[0]
    if k == "x":
        return X
    if k == "y":
        return Y
    if k == "p":
        return P
    if k == "c":
        return t[1]
    if k in BIN:
        a, b = lib_build(t[1], X, Y, P, memo), lib_build(t[2], X, Y, P, memo)
        if k == "add":
            return a + b
        if k == "sub":
            return a - b
        if k == "mul":
            return a * b
        if k == "div":
            return a / b
        return a ** b
    a = lib_build(t[1], X, Y, P, memo)
    if k == "neg":
        return -a
    return getattr(E, k)(a)


def show(t):
    k = t[0]
    if k in ("x", "y", "p"):
        return k
    if k == "c":
        return repr(t[1])
    if k in BIN:
        return "(%s %s %s)" % (show(t[1]), {"add": "+", "sub": "-", "mul": "*", "div": "/", "pow": "**"}[k], show(t[2]))
    return "%s(%s)" % (k, show(t[1]))


# ------------------------------------------------------------------------------------------------ tree enumeration
def trees(n, leaves, un, bn, _memo=None):
    """all trees with exactly n operator nodes."""
    if _memo is None:
        _memo = {}
    if n in _memo:
        return _memo[n]
    if n == 0:
        out = list(leaves)
    else:
        out = [(u, s) for u in un for s in trees(n - 1, leaves, un, bn, _memo)]
        for i in range(0, n):
            for a in trees(i, leaves, un, bn, _memo):
                for b in trees(n - 1 - i, leaves, un, bn, _memo):
                    for o in bn:
                        out.append((o, a, b))
    _memo[n] = out
    return out


LEAVES_FULL = [("x",), ("y",), ("p",), ("c", 0), ("c", 1), ("c", 2.0), ("c", -1.5), ("c", 0.5)]
LEAVES_MID = [("x",), ("y",), ("p",), ("c", 2.0), ("c", 0.5)]
LEAVES_SMALL = [("x",), ("p",), ("c", 2.0)]


def expr_space(tier):
    """list of (label, [trees])"""
    sp = []
    full = []
    memo = {}
    for n in (0, 1, 2):
        full += trees(n, LEAVES_FULL, UN, BIN, memo)
    sp.append(("N<=2 full alphabet", full))
    if tier == "quick":
        sp.append(("N=3 reduced alphabet {x,p,2} x {neg,log,abs} x all binary", trees(3, LEAVES_SMALL, ["neg", "log", "abs"], BIN)))
    else:
        sp.append(("N=3 alphabet {x,y,p,2,0.5} x {neg,abs,exp,log,sin,sign} x all binary",
                   trees(3, LEAVES_MID, ["neg", "abs", "exp", "log", "sin", "sign"], BIN)))
        sp.append(("N=4 alphabet {x,p,2} x {neg,log} x {+,*,/,**}", trees(4, LEAVES_SMALL, ["neg", "log"], ["add", "mul", "div", "pow"])))
    return sp


# ------------------------------------------------------------------------------------------------ part A worker
def close(a, b, mag=1.0):
    return abs(a - b) <= 1e-9 * max(abs(a), abs(b)) + 1e-11 * max(1.0, mag)


def check_batch(trs):
    """build one model holding all trees as constraints; returns dict like run_case."""
    from wntr.sim.aml import aml
    viol, counts = [], {"trees": 0, "points_judged": 0, "jac_entries_judged": 0, "skipped_const_subtree": 0,
                        "skipped_no_var": 0, "points_undefined": 0}
    live = []
    for t in trs:
        if has_const_subtree(t):
            counts["skipped_const_subtree"] += 1
            continue
        if not depends(t):
            counts["skipped_no_var"] += 1
            continue
        if not _defined_somewhere(t):
            counts["skipped_undefined_everywhere"] = counts.get("skipped_undefined_everywhere", 0) + 1
            continue
        if _folds_to_number(t):
            counts["skipped_folds_to_number"] = counts.get("skipped_folds_to_number", 0) + 1
            continue
        live.append((t, False))
        if has_repeat(t):
            live.append((t, True))      # the same tree with its repeated sub-trees built once and shared
            counts["shared_subexpression_variants"] = counts.get("shared_subexpression_variants", 0) + 1
    if not live:
        return {"viol": [], "counts": counts, "nontrivial": 0}
    res = _eval_model(live, counts)
    if res is None:          # the batch could not be built: find the offending tree(s) one by one
        for t in live:
            r1 = _eval_model([t], counts, single=True)
            if isinstance(r1, dict):
                viol.append(r1)
        res = []
    viol += res
    return {"viol": viol[:6], "counts": counts, "nontrivial": counts["trees"]}


def _defined_somewhere(t):
    for xv in GRID:
        for yv in GRID:
            try:
                r = ref_eval(t, xv, yv, PVAL)
                if all(math.isfinite(z) for z in r[:3]):
                    return True
            except (Undefined, ZeroDivisionError, ValueError, OverflowError):
                pass
    return False


class _Sym(object):
    """mimics the folding shortcuts of the operator overloading: x+0, x*1, x*0, x**0, 0/x ... (documented in expr.py)"""


def _folds_to_number(t):
    from wntr.sim.aml import aml
    try:
        e = lib_build(t, aml.Var(0.5), aml.Var(0.5), aml.Param(PVAL))
    except Exception:  # noqa - judged later as a build failure
        return False
    return isinstance(e, (int, float))


def _eval_model(live, counts, single=False):
    from wntr.sim.aml import aml
    import numpy as np
    m = aml.Model()
    X, Y, P = aml.Var(0.5), aml.Var(0.5), aml.Param(PVAL)
    m.x, m.y, m.p = X, Y, P
    cons = []
    try:
        m.c = aml.ConstraintDict()
        for i, (t, shared) in enumerate(live):
            e = lib_build(t, X, Y, P, {} if shared else None)
            c = aml.Constraint(e)
            m.c[i] = c
            cons.append(c)
        # padding to a square system: x and y are forced in, plus fresh variables in one extra constraint
        npad = len(live) + 1 - 2
        zs = [aml.Var(0.0) for _ in range(npad)]
        pad = X + Y
        for z in zs:
            pad = pad + z
        m.pad = aml.Constraint(pad)
        m.set_structure()
    except Exception as e:  # noqa
        if not single:
            return None
        import traceback
        return {"tree": live[0][0], "shared": live[0][1], "key": "%sbuild-fails:%s" % ("shared:" if live[0][1] else "", type(e).__name__),
                "what": "building / registering the valid expression %s raised %s: %s" % (show(live[0][0]), type(e).__name__, str(e)[:120]),
                "detail": traceback.format_exc()[-1500:]}
    viol = []
    defined = [False] * len(live)
    for pv, xv, yv in [(pv_, x_, y_) for pv_ in PVALS for x_ in GRID for y_ in GRID]:
        if True:
            pcur = pv
            tagp = "" if pv == PVALS[0] else "param-changed:"
            P.value = pv          # the parameter changes AFTER the constraints were registered and compiled
            # the solver's way of setting values (an x vector) in between: the variables are moved somewhere else through
            # load_var_values_from_x, then assigned the grid point through Var.value - the assignment must win
            xx = m.get_x()
            for var_, val_ in ((X, xv), (Y, yv)):
                if var_.index is not None:
                    xx[var_.index] = val_ + 1.25
            m.load_var_values_from_x(xx)
            X.value, Y.value = xv, yv
            r = m.evaluate_residuals()
            Jm = m.evaluate_jacobian().toarray()
            if len(r) != len(live) + 1:
                viol.append({"key": "residual-length", "what": "residual vector has %d entries for %d constraints" % (len(r), len(live) + 1)})
                return viol
            for i, (t, shared) in enumerate(live):
                tag = ("shared:" if shared else "") + tagp
                # the compiled program and the library's own direct evaluation run the same operations in the same order:
                # wherever both are finite they must agree (this also judges sign(0), |0| and points outside the reference domain)
                try:
                    dv_ = cons[i].evaluate()
                    cv_ = r[cons[i].index]
                    if math.isfinite(dv_) and math.isfinite(cv_) and abs(dv_) < 1e100:
                        counts["compiled_vs_direct"] = counts.get("compiled_vs_direct", 0) + 1
                        if abs(dv_ - cv_) > 1e-9 * max(abs(dv_), abs(cv_)) + 1e-12:
                            viol.append({"tree": t, "shared": shared, "key": tag + "compiled-vs-direct:%s" % _shape(t), "what": "%s at x=%g y=%g p=%g: compiled residual %.12g, Constraint.evaluate() %.12g" % (show(t), xv, yv, pcur, cv_, dv_)})
                except Exception:  # noqa - direct evaluation outside its domain raises; nothing to compare
                    pass
                try:
                    MAG[0] = 0.0
                    v, dx, dy, _ = ref_eval(t, xv, yv, pcur)
                    mag = MAG[0]
                except (Undefined, ZeroDivisionError, ValueError, OverflowError):
                    counts["points_undefined"] += 1
                    continue
                if not (math.isfinite(v) and math.isfinite(dx) and math.isfinite(dy)) or MAG[0] > 1e9:
                    counts["points_undefined"] += 1
                    continue
                defined[i] = True
                counts["points_judged"] += 1
                row = cons[i].index
                got = r[row]
                if not close(got, v, mag):
                    viol.append({"tree": t, "shared": shared, "key": tag + "residual:%s" % _shape(t), "what": "%s at x=%g y=%g p=%g: compiled residual %.12g, true value %.12g" % (show(t), xv, yv, pcur, got, v)})
                    continue
                try:
                    direct = cons[i].evaluate()
                    if not close(direct, v, mag):
                        viol.append({"tree": t, "shared": shared, "key": tag + "direct-eval:%s" % _shape(t), "what": "%s at x=%g y=%g: Constraint.evaluate() %.12g, true value %.12g" % (show(t), xv, yv, direct, v)})
                except Exception:  # noqa - direct evaluation is a cross-check only
                    pass
                for var, d, nm in ((X, dx, "x"), (Y, dy, "y")):
                    if var.index is None:
                        continue
                    gj = Jm[row, var.index]
                    counts["jac_entries_judged"] += 1
                    if not close(gj, d, mag):
                        viol.append({"tree": t, "shared": shared, "key": tag + "jacobian:%s" % _shape(t), "what": "%s at x=%g y=%g p=%g: compiled d/d%s = %.12g, true derivative %.12g" % (show(t), xv, yv, pcur, nm, gj, d)})
                        break
    counts["trees"] += sum(defined)
    # keep one violation per key
    seen, out = set(), []
    for v in viol:
        if v["key"] not in seen:
            seen.add(v["key"]); out.append(v)
    return out


def _shape(t):
    """violation class: root operator + whether each operand is a leaf (narrow but stable)."""
    k = t[0]
    if k in BIN:
        return "%s(%s,%s)" % (k, "leaf" if len(t[1]) <= 2 and t[1][0] in "xypc" else "expr", "leaf" if len(t[2]) <= 2 and t[2][0] in "xypc" else "expr")
    if k in UN:
        return "%s(%s)" % (k, "leaf" if t[1][0] in "xypc" else "expr")
    return k


# ------------------------------------------------------------------------------------------------ part B: conditional constraints
BODIES = [("x",), ("sub", ("x",), ("y",)), ("mul", ("c", 2.0), ("x",)), ("add", ("x",), ("p",))]
BRANCH_EXPRS = [("mul", ("x",), ("x",)), ("add", ("mul", ("c", 2.0), ("x",)), ("y",)), ("neg", ("x",)), ("pow", ("x",), ("c", 3.0)),
                ("sub", ("y",), ("c", 1.0)), ("x",)]
BOUNDS = [(None, 0.0), (0.0, None), (0.0, 1.0), (-0.5, 0.5), (1.0, 1.0)]


def cond_cases(tier):
    out = []
    nb = (1, 2) if tier == "quick" else (1, 2, 3)
    bounds = BOUNDS if tier != "quick" else BOUNDS[:4]
    for n in nb:
        for body in (BODIES if n < 3 else BODIES[:2]):
            for bs in itertools.product(bounds, repeat=n):
                for es in itertools.permutations(range(len(BRANCH_EXPRS)), n + 1):
                    if tier == "quick" and es[0] > 2:
                        continue
                    if n >= 2 and es[0] > 1:
                        continue
                    out.append({"part": "B", "body": body, "bounds": [list(b) for b in bs], "exprs": list(es)})
    return out


def run_cond(s):
    from wntr.sim.aml import aml, expr as E
    m = aml.Model()
    X, Y, P = aml.Var(0.3), aml.Var(0.7), aml.Param(PVAL)
    m.x, m.y, m.p = X, Y, P
    ce = E.ConditionalExpression()
    for (lb, ub), ei in zip(s["bounds"], s["exprs"]):
        ce.add_condition(E.inequality(body=lib_build(tuple_(s["body"]), X, Y, P), lb=lb, ub=ub), lib_build(tuple_(BRANCH_EXPRS[ei]), X, Y, P))
    ce.add_final_expr(lib_build(tuple_(BRANCH_EXPRS[s["exprs"][-1]]), X, Y, P))
    m.c = aml.Constraint(ce)
    m.d = aml.Constraint(X + Y - 1.0)
    m.set_structure()
    viol, counts = [], {"cond_points": 0, "cond_boundary_points": 0}
    # x values at, just below and just above every bound of every branch (body is affine in x with y, p fixed)
    yv = 0.25
    Y.value = yv
    xs = set([-3.0, 3.0])
    body = tuple_(s["body"])
    for lb, ub in s["bounds"]:
        for b in (lb, ub):
            if b is None:
                continue
            x0 = {"x": b, "sub": b + yv, "mul": b / 2.0, "add": b - PVAL}[body[0]]
            xs.update([x0, x0 - 1e-7, x0 + 1e-7, x0 - 0.1, x0 + 0.1])
    branches_seen = set()
    # every point twice: residuals before the Jacobian (ascending x), then the Jacobian FIRST after the value change
    # (descending x) - no evaluation order may matter
    for order, xv in [("rj", x_) for x_ in sorted(xs)] + [("jr", x_) for x_ in sorted(xs, reverse=True)]:
        X.value = xv
        bv = ref_eval(body, xv, yv, PVAL)[0]
        sel = len(s["bounds"])
        near = False
        for i, (lb, ub) in enumerate(s["bounds"]):
            lo = -math.inf if lb is None else lb
            hi = math.inf if ub is None else ub
            if abs(bv - lo) < 1e-12 or abs(bv - hi) < 1e-12:
                near = True
            if lo <= bv <= hi:
                sel = i
                break
        t = tuple_(BRANCH_EXPRS[s["exprs"][sel]])
        v, dx, dy, _ = ref_eval(t, xv, yv, PVAL)
        if order == "rj":
            r = m.evaluate_residuals()
            Jm = m.evaluate_jacobian().toarray()
        else:
            Jm = m.evaluate_jacobian().toarray()
            r = m.evaluate_residuals()
        row = m.c.index
        counts["cond_points"] += 1
        branches_seen.add(sel)
        direct = m.c.evaluate()
        if near:
            counts["cond_boundary_points"] += 1
            # exactly on a bound (up to rounding of x0): only require compiled == the library's own direct evaluation
            if not close(r[row], direct):
                viol.append({"key": "conditional:compiled-vs-direct", "what": "body %s bounds %s at x=%.10g: compiled %.12g, Constraint.evaluate() %.12g" % (show(body), s["bounds"], xv, r[row], direct)})
            continue
        if not close(r[row], v):
            viol.append({"key": "conditional:residual", "what": "body %s bounds %s exprs %s at x=%.10g (body=%.10g): compiled %.12g, branch %d gives %.12g" % (show(body), s["bounds"], s["exprs"], xv, bv, r[row], sel, v)})
        elif not close(direct, v):
            viol.append({"key": "conditional:direct-eval", "what": "body %s bounds %s at x=%.10g: Constraint.evaluate() %.12g, branch %d gives %.12g" % (show(body), s["bounds"], xv, direct, sel, v)})
        else:
            for var, d, nm in ((X, dx, "x"), (Y, dy, "y")):
                if not close(Jm[row, var.index], d):
                    viol.append({"key": "conditional:jacobian" + (":evaluated-before-residuals" if order == "jr" else ""), "what": "body %s bounds %s exprs %s at x=%.10g: d/d%s compiled %.12g, branch %d gives %.12g" % (show(body), s["bounds"], s["exprs"], xv, nm, Jm[row, var.index], sel, d)})
                    break
    seen, out = set(), []
    for v in viol:
        if v["key"] not in seen:
            seen.add(v["key"]); out.append(v)
    return {"viol": out, "counts": counts, "nontrivial": len(branches_seen) >= 2, "outcome": "branches=%d" % len(branches_seen)}


def tuple_(t):
    return tuple(tuple_(s) if isinstance(s, list) else s for s in t) if isinstance(t, (list, tuple)) else t


# ------------------------------------------------------------------------------------------------ part C: histories (bfs)
NPOOL = 7
VALS = {"x": [0.5, 2.0], "p": [1.5, -0.5]}


def pool_exprs(X, Y, P, F, shared):
    """7 constraint bodies sharing a variable, a parameter, one Float leaf object F and one sub-expression."""
    from wntr.sim.aml import expr as E
    sub = shared            # x*y + p, one expression object used by c3 and c4
    ce = E.ConditionalExpression()
    ce.add_condition(E.inequality(body=X, ub=1.0), X * Y)
    ce.add_final_expr(X + Y * P)
    return [X + Y * P - 1.0,          # c0
            X * F - Y,                # c1  (Float object F)
            Y + F,                    # c2  (same Float object F)
            sub ** 2 - 1.0,           # c3  (shared sub-expression)
            sub + X,                  # c4  (shared sub-expression)
            ce,                       # c5  conditional
            E.exp(Y) - P * X]         # c6


def pool_ref(i, x, y, p, f=2.5):
    """(value, d/dx, d/dy)"""
    s = x * y + p
    return [(x + y * p - 1.0, 1.0, p), (x * f - y, f, -1.0), (y + f, 0.0, 1.0), (s * s - 1.0, 2 * s * y, 2 * s * x),
            (s + x, y + 1.0, x), ((x * y, y, x) if x <= 1.0 else (x + y * p, 1.0, p)), (math.exp(y) - p * x, -p, math.exp(y))][i]


class Hist(object):
    """replays a history on a real aml.Model and keeps the reference of what must be live."""

    def __init__(self):
        from wntr.sim.aml import aml, expr as E
        self.aml = aml
        self.m = aml.Model()
        self.X, self.Y, self.P = aml.Var(0.5), aml.Var(0.25), aml.Param(1.5)
        self.m.x, self.m.y, self.m.p = self.X, self.Y, self.P
        self.F = E.Float(2.5)
        self.shared = self.X * self.Y + self.P
        self.cons = {}
        self.live = {}          # i -> "attr" | "dict"
        self.has_dict = False
        self.structure = False
        self.vals = {"x": 0.5, "y": 0.25, "p": 1.5}

    def con(self, i):
        # a fresh Constraint object per registration (the expression objects are shared)
        e = pool_exprs(self.X, self.Y, self.P, self.F, self.shared)[i]
        return self.aml.Constraint(e)

    def enabled(self):
        ops = []
        for i in range(NPOOL):
            if i not in self.live:
                ops.append(["add_attr", i])
                ops.append(["add_dict", i])
            else:
                ops.append(["remove", i])
        if self.has_dict and any(w == "dict" for w in self.live.values()):
            ops.append(["del_dict"])
        for v in VALS["x"]:
            if v != self.vals["x"]:
                ops.append(["set_x", v])
        for v in VALS["p"]:
            if v != self.vals["p"]:
                ops.append(["set_p", v])
        if self.live:
            ops.append(["structure"])
        return ops

    def apply(self, op):
        k = op[0]
        m = self.m
        if k == "add_attr":
            c = self.con(op[1])
            setattr(m, "c%d" % op[1], c)
            self.cons[op[1]] = c
            self.live[op[1]] = "attr"
            self.structure = False
        elif k == "add_dict":
            if not self.has_dict:
                m.cd = self.aml.ConstraintDict()
                self.has_dict = True
            c = self.con(op[1])
            m.cd[op[1]] = c
            self.cons[op[1]] = c
            self.live[op[1]] = "dict"
            self.structure = False
        elif k == "remove":
            if self.live[op[1]] == "attr":
                delattr(m, "c%d" % op[1])
            else:
                del m.cd[op[1]]
            del self.live[op[1]]
            del self.cons[op[1]]
            self.structure = False
        elif k == "del_dict":
            del m.cd
            self.has_dict = False
            for i in [i for i, w in self.live.items() if w == "dict"]:
                del self.live[i]
                del self.cons[i]
            self.structure = False
        elif k == "set_x":
            self.X.value = op[1]
            self.vals["x"] = op[1]
        elif k == "set_p":
            self.P.value = op[1]
            self.vals["p"] = op[1]
        elif k == "structure":
            m.set_structure()
            m.evaluate_residuals()
            self.structure = True
        else:
            raise KeyError(k)

    def key(self):
        return json.dumps([sorted(self.live.items()), self.has_dict, self.structure, self.vals], sort_keys=True)

    def judge(self):
        """pads to square, sets the structure and compares residuals / Jacobian / indices with the reference."""
        aml = self.aml
        m = self.m
        viol = []
        ncon = len(self.live)
        # one padding constraint over x, y and fresh variables makes the system square: ncon + 1 == 2 + npad
        npad = ncon - 1
        if npad < 0:
            return viol
        zs = [aml.Var(0.0) for _ in range(npad)]
        pad = self.X + self.Y
        for z in zs:
            pad = pad + z
        m.zz_pad = aml.Constraint(pad)
        m.set_structure()
        r = m.evaluate_residuals()
        if len(r) != ncon + 1:
            return [{"key": "history:residual-length", "what": "%d live constraints (+1 padding) but the residual vector has %d entries" % (ncon, len(r))}]
        Jm = m.evaluate_jacobian().toarray()
        idx = [self.cons[i].index for i in self.live] + [m.zz_pad.index]
        if sorted(idx) != list(range(ncon + 1)):
            viol.append({"key": "history:constraint-indices", "what": "constraint indices %s are not a permutation of 0..%d" % (idx, ncon)})
            return viol
        vidx = [v.index for v in [self.X, self.Y] + zs]
        if sorted(vidx) != list(range(len(vidx))):
            viol.append({"key": "history:var-indices", "what": "variable indices %s are not a permutation" % vidx})
            return viol
        gx = m.get_x()
        for v in [self.X, self.Y] + zs:
            if not close(gx[v.index], v.value):
                viol.append({"key": "history:get_x", "what": "get_x()[%d] = %r but the variable's value is %r" % (v.index, gx[v.index], v.value)})
                break
        x, y, p = self.vals["x"], self.vals["y"], self.vals["p"]
        if not (close(self.X.value, x) and close(self.P.value, p)):
            viol.append({"key": "history:value-lost", "what": "x=%r p=%r after the history, expected %r %r" % (self.X.value, self.P.value, x, p)})
        for i in self.live:
            v, dx, dy = pool_ref(i, x, y, p)
            row = self.cons[i].index
            if not close(r[row], v):
                viol.append({"key": "history:residual", "what": "constraint c%d: compiled residual %.12g, true value %.12g (x=%g y=%g p=%g)" % (i, r[row], v, x, y, p)})
                continue
            if not (close(Jm[row, self.X.index], dx) and close(Jm[row, self.Y.index], dy)):
                viol.append({"key": "history:jacobian", "what": "constraint c%d: compiled row (d/dx, d/dy) = (%.12g, %.12g), true (%.12g, %.12g)" % (i, Jm[row, self.X.index], Jm[row, self.Y.index], dx, dy)})
            for z in zs:
                if Jm[row, z.index] != 0.0:
                    viol.append({"key": "history:jacobian-structure", "what": "constraint c%d has a non-zero entry in the column of an unrelated variable" % i})
                    break
        return viol


def hist_step(ops, op):
    h = Hist()
    try:
        for o in ops:
            h.apply(o)
    except Exception as e:  # noqa - already reported on the prefix
        return None, [], "prefix-crash"
    try:
        h.apply(op)
    except Exception as e:  # noqa
        import traceback
        return None, [{"key": "history:crash:%s:%s" % (op[0], type(e).__name__),
                       "what": "%s after %s raised %s: %s" % (op, ops, type(e).__name__, str(e)[:150]),
                       "detail": traceback.format_exc()[-1500:]}], "crash"
    key = h.key()
    try:
        viol = h.judge()
    except Exception as e:  # noqa
        import traceback
        viol = [{"key": "history:crash:evaluate:%s" % type(e).__name__,
                 "what": "set_structure/evaluate after %s raised %s: %s" % (ops + [op], type(e).__name__, str(e)[:150]),
                 "detail": traceback.format_exc()[-1500:]}]
    return key, viol[:4], op[0]


def expand(hh):
    h = Hist()
    for o in hh["ops"]:
        h.apply(o)
    out = {"key": h.key(), "viol": [], "succ": []}
    if hh.get("init_only"):
        return out
    removed_before = any(o[0] in ("remove", "del_dict") for o in hh["ops"])
    for op in h.enabled():
        key, viol, outcome = hist_step(hh["ops"], op)
        h2live = len(h.live) + (1 if op[0].startswith("add") else 0)
        out["succ"].append({"op": op, "key": key, "viol": viol, "outcome": outcome,
                            "nontrivial": (removed_before or op[0] in ("remove", "del_dict")) and h2live >= 2})
    return out


# ------------------------------------------------------------------------------------------------ entry points
# ------------------------------------------------------------------------------------------------ part E: extended sub-expressions
EXT_E = {"xy": (lambda X, Y, P: X * Y, lambda x, y, p: (x * y, y, x)),
         "xy+p": (lambda X, Y, P: X * Y + P, lambda x, y, p: (x * y + p, y, x)),
         "sinx+y": (lambda X, Y, P: __import__("wntr.sim.aml.expr", fromlist=["sin"]).sin(X) + Y, lambda x, y, p: (math.sin(x) + y, math.cos(x), 1.0)),
         "x2": (lambda X, Y, P: X ** 2, lambda x, y, p: (x * x, 2 * x, 0.0))}
EXT_OP = {"+z": (lambda e, Z: e + Z, lambda u, z: (u + z, 1.0, 1.0)), "*z": (lambda e, Z: e * Z, lambda u, z: (u * z, z, u)),
          "-z": (lambda e, Z: e - Z, lambda u, z: (u - z, 1.0, -1.0)), "z*": (lambda e, Z: Z * e, lambda u, z: (u * z, z, u)),
          "**2+z": (lambda e, Z: e ** 2 + Z, lambda u, z: (u * u + z, 2 * u, 1.0))}
EXT_ORDERS = ["big,e", "e,big", "e-only", "cond-e-only"]
EXT_POINTS = [(0.5, 0.25, 1.7, 1.5), (2.0, -1.5, 0.3, 1.5), (1.2, 0.8, -2.0, -0.5)]


def ext_cases(tier):
    return [{"part": "E", "e": a, "op": b, "order": o} for a in EXT_E for b in EXT_OP for o in EXT_ORDERS]


def run_ext(c):
    """a sub-expression e is FIRST extended by an operation that brings in a new variable z (big = e op z) and only then used
    as a constraint body itself (before / after / without big being registered, or as the branch of a conditional)."""
    from wntr.sim.aml import aml, expr as E
    viol = []
    tag = "extended:%s:%s" % (c["order"], c["op"])

    def bad(k, w):
        viol.append({"key": "%s:%s" % (tag, k), "what": "e=%s, big=e%s, order %s: %s" % (c["e"], c["op"], c["order"], w)})
    try:
        m = aml.Model()
        X, Y, Z, P = aml.Var(0.5), aml.Var(0.25), aml.Var(1.7), aml.Param(1.5)
        m.x, m.y, m.p = X, Y, P
        e = EXT_E[c["e"]][0](X, Y, P)
        big = EXT_OP[c["op"]][0](e, Z)          # built before e is registered anywhere
        cons = {}
        if c["order"] in ("big,e", "e,big"):
            m.z = Z
            names = ["big", "e"] if c["order"] == "big,e" else ["e", "big"]
            for nm in names:
                cons[nm] = aml.Constraint(big if nm == "big" else e)
                setattr(m, "c_" + nm, cons[nm])
            m.c_pad = aml.Constraint(X + 2.0 * Y + 3.0 * Z - 1.0)
            nvars = 3
        else:
            if c["order"] == "e-only":
                cons["e"] = aml.Constraint(e)
            else:
                ce = E.ConditionalExpression()
                ce.add_condition(E.inequality(body=X, ub=1.0), e)
                ce.add_final_expr(e + 1.0)
                cons["e"] = aml.Constraint(ce)
            m.c_e = cons["e"]
            m.c_pad = aml.Constraint(X - 2.0 * Y)
            nvars = 2
        m.set_structure()
        if len(list(m.vars())) != nvars:
            bad("variables", "the model holds %d variables, %d appear in its constraints" % (len(list(m.vars())), nvars))
            return {"viol": viol, "nontrivial": True, "outcome": "ext"}
        for x, y, z, p in EXT_POINTS:
            X.value, Y.value, Z.value, P.value = x, y, z, p
            r = m.evaluate_residuals()
            J = m.evaluate_jacobian().toarray()
            u, ux, uy = EXT_E[c["e"]][1](x, y, p)
            if c["order"] == "cond-e-only" and x > 1.0:
                u += 1.0
            b, bu, bz = EXT_OP[c["op"]][1](u, z)
            for nm, (v, dx, dy, dz) in (("e", (u, ux, uy, 0.0)), ("big", (b, bu * ux, bu * uy, bz))):
                if nm not in cons:
                    continue
                row = cons[nm].index
                if abs(r[row] - v) > 1e-9 * max(1.0, abs(v)):
                    bad("residual", "%s at (x,y,z,p)=%s: compiled residual %.12g, true value %.12g" % (nm, (x, y, z, p), r[row], v)); break
                for var, d, vn in ((X, dx, "x"), (Y, dy, "y"), (Z, dz, "z")):
                    if var.index is None:
                        continue
                    if abs(J[row, var.index] - d) > 1e-9 * max(1.0, abs(d)):
                        bad("jacobian", "d(%s)/d%s at %s: compiled %.12g, true %.12g" % (nm, vn, (x, y, z, p), J[row, var.index], d)); break
            if viol:
                break
    except Exception as ex:  # noqa
        import traceback
        viol.append({"key": "%s:raises:%s" % (tag, type(ex).__name__), "what": "e=%s, big=e%s, order %s: %s: %s" % (c["e"], c["op"], c["order"], type(ex).__name__, str(ex)[:120]),
                     "detail": traceback.format_exc()[-1200:]})
    return {"viol": viol[:2], "nontrivial": True, "outcome": "ext:%s" % c["order"], "counts": {"extended_models": 1}}


def run_case(s):
    if s.get("part") == "E":
        return run_ext(s)
    if s.get("part") == "A":
        return check_batch([tuple_(t) for t in s["trees"]])
    if s.get("part") == "B":
        return run_cond(s)
    if "ops" in s:      # replay of a history
        viol = []
        for i in range(len(s["ops"])):
            _, v, _ = hist_step(s["ops"][:i], s["ops"][i])
            viol += v
        return {"viol": viol}
    raise KeyError("unknown spec")


def run(run_, tier, seed):
    from .. import pool, bfs
    import sys
    mod = sys.modules[__name__]
    # ---- part A
    specs = []
    sizes = {}
    for label, trs in expr_space(tier):
        sizes[label] = len(trs)
        B = 150
        for i in range(0, len(trs), B):
            specs.append({"part": "A", "trees": trs[i:i + B]})
    res = pool.run_cases(run_case, specs, seed=seed)
    ntrees = 0
    for s, r in zip(specs, res):
        run_.evaluations += len(s["trees"])
        ntrees += r.get("nontrivial", 0)
        for k, n in (r.get("counts") or {}).items():
            run_.count("A:" + k, n)
        for v in r.get("viol") or []:
            # representative spec: the single tree named in the message is re-found at replay by running the batch
            run_.violation(v["key"], v["what"], {"part": "A", "trees": [v["tree"]]} if "tree" in v else s, v.get("detail"))
    a_samples = [show(tuple_(specs[i]["trees"][len(specs[i]["trees"]) // 2])) for i in (0, len(specs) // 2, len(specs) - 1)]
    # ---- part B
    cspecs = cond_cases(tier)
    cres = pool.run_cases(run_case, cspecs, seed=seed)
    nb = 0
    for s, r in zip(cspecs, cres):
        run_.evaluations += 1
        nb += 1 if r.get("nontrivial") else 0
        o = r.get("outcome")
        if o:
            run_.outcomes["B:" + o] = run_.outcomes.get("B:" + o, 0) + 1
        for k, n in (r.get("counts") or {}).items():
            run_.count("B:" + k, n)
        for v in r.get("viol") or []:
            run_.violation(v["key"], v["what"], s, v.get("detail"))
    # ---- part E
    especs = ext_cases(tier)
    eres = pool.run_cases(run_case, especs, seed=seed)
    for s, r in zip(especs, eres):
        run_.evaluations += 1
        o = r.get("outcome")
        if o:
            run_.outcomes["E:" + o] = run_.outcomes.get("E:" + o, 0) + 1
        for k, n in (r.get("counts") or {}).items():
            run_.count("E:" + k, n)
        for v in r.get("viol") or []:
            run_.violation(v["key"], v["what"], s, v.get("detail"))
    # ---- part C
    nt_before = len(run_.nontrivial)
    bfs.search(run_, mod, ["empty"], {"quick": 4, "thorough": 6}[tier], seed=seed)
    run_.extra["expression_space_sizes"] = sizes
    run_.extra["expression_trees_judged"] = ntrees
    run_.extra["conditional_cases"] = len(cspecs)
    run_.extra["conditional_cases_multi_branch"] = nb
    run_.extra["history_nontrivial_states"] = len(run_.nontrivial) - nt_before
    run_.extra["distinct_nontrivial_note"] = "expression trees judged + multi-branch conditional cases + non-trivial history transitions"
    run_.extra["extended_subexpression_cases"] = len(especs)
    run_.nontrivial_extra = ntrees + nb + len(especs)
    run_.samples = a_samples + [cspecs[len(cspecs) // 2]] + run_.samples[:3]
