"""C07 - pressure-dependent demand follows the documented pressure-demand curve."""
import itertools
from ..net import *

ID = "C07"
LEVEL = "exploration"
DELTA = 0.05  # documented smoothing half-band (m)
# the smoothing cubics are evaluated in absolute pressure with coefficients ~1/DELTA^3: rounding noise reaches ~1e-8 of the
# demand fraction (measured 3e-9); the solver tolerance is 1e-6, so 1e-7 is "equal" for this property
NOISE = 1e-7
RULE = ("(a) model seam: create_hydraulic_model on R-pipe-J; (Pmin,Preq) in {(0,20),(3.516,21.097),(5,5.5),(0,0.2),(-5,15)} x exponent "
        "{0.5,0.4,0.75,1.0} x requested demand {0,1e-4,0.01,1} x {global, per-junction override of all / each parameter}; the "
        "compiled residual of m.pdd[J] at demand 0 is swept over 400 uniform pressures in [Pmin-5, Preq+5] plus 12 points "
        "around each of the four branch edges; (b) system seam: PDD runs with reservoir heads placing the junction in every "
        "regime (also with the simulator object created, or already run demand-driven, before the model is switched to PDD), and a two-junction network where only one junction carries overrides; (c) dynamic seam: 6-step runs in which a head "
        "pattern walks the junction through all regimes while the requested demand follows a pattern and a time control changes "
        "one per-junction parameter {none, required_pressure, minimum_pressure, pressure_exponent} at 2 h. oracle: zero/full/power-law values, "
        "monotone, continuous, overrides local.  thorough: 13 (Pmin,Preq) pairs incl. a band barely wider than the two smoothing zones, both-sides-of-zero and 0..100 m, "
        "9 exponents 0.3..2.0, 7 requested demands 0..25 (a required pressure <= the smoothing delta is refused by the model builder: outside). non-trivial: grid covers all five branches and D>0")

PAIRS = [(0.0, 20.0), (3.516, 21.097), (5.0, 5.5), (0.0, 0.2), (-5.0, 15.0)]     # incl. a negative minimum pressure (legal)
EXPS = [0.5, 0.4, 0.75, 1.0]
DEMS = [0.0, 1e-4, 0.01, 1.0]
MODES = ["global", "junction_all", "junction_pmin", "junction_preq", "junction_exp"]
OTHER = (1.0, 30.0, 0.6)   # the values the *non-used* level carries (must be ignored)


def params(mode, pmin, preq, e):
    """returns (options dict, junction overrides dict) such that the effective parameters are (pmin, preq, e)."""
    o = {"pmin": pmin, "preq": preq, "pexp": e}
    j = {}
    if mode == "junction_all":
        o = {"pmin": OTHER[0], "preq": OTHER[1], "pexp": OTHER[2]}
        j = {"pmin": pmin, "preq": preq, "pexp": e}
    elif mode == "junction_pmin":
        o["pmin"] = pmin + 1.0 if preq - pmin > 2 else pmin + 0.05
        j = {"pmin": pmin}
    elif mode == "junction_preq":
        o["preq"] = preq + 7.0
        j = {"preq": preq}
    elif mode == "junction_exp":
        o["pexp"] = 0.5 if e != 0.5 else 1.0
        j = {"pexp": e}
    return o, j


PAIRS_T = PAIRS + [(0.0, 0.11), (0.0, 1.0), (2.5, 2.7), (10.0, 50.0), (0.0, 100.0), (-20.0, 5.0), (1e-3, 30.0), (14.06, 28.12)]
EXPS_T = EXPS + [0.3, 0.6, 0.9, 1.5, 2.0]
DEMS_T = DEMS + [1e-6, 0.1, 25.0]


def cases(tier):
    out = []
    if tier == "thorough":
        return _cases(tier, PAIRS_T, EXPS_T, DEMS_T)
    return _cases(tier, PAIRS, EXPS, DEMS)


def _cases(tier, PAIRS, EXPS, DEMS):
    out = []
    for (pmin, preq), e, D, mode in itertools.product(PAIRS, EXPS, DEMS, MODES):
        if tier == "quick" and mode not in ("global", "junction_all") and (D != 0.01):
            continue
        out.append({"seam": "model", "pmin": pmin, "preq": preq, "exp": e, "D": D, "mode": mode})
    heads = [-3.0, 0.0, 0.02, 0.05, 2.0, 10.0, 19.97, 20.0, 25.0, 60.0]
    for (pmin, preq), e, mode in itertools.product(PAIRS, EXPS, ("global", "junction_all")):
        for h in heads:
            out.append({"seam": "system", "pmin": pmin, "preq": preq, "exp": e, "mode": mode, "rhead": round(pmin + h * (preq - pmin) / 20.0 + 0.3, 6)})
            if mode == "global" and e in (0.5, 1.0) and h in (-3.0, 2.0, 10.0, 25.0):
                for order in ("sim-first", "dd-run-first"):
                    out.append({"seam": "system", "pmin": pmin, "preq": preq, "exp": e, "mode": mode, "rhead": round(pmin + h * (preq - pmin) / 20.0 + 0.3, 6), "order": order})
    for (pmin, preq), e in itertools.product(PAIRS, EXPS):
        out.append({"seam": "override-local", "pmin": pmin, "preq": preq, "exp": e})
    # (c) dynamic seam: a 6-step run in which a reservoir head pattern walks the junction through all regimes, the requested
    # demand follows a pattern, and (optionally) a time control changes one per-junction parameter at t = 2 h
    for (pmin, preq), e, mode in itertools.product(PAIRS, EXPS, ("global", "junction_all")):
        if tier == "quick" and (e not in (0.5, 1.0) or (pmin, preq) == (0.0, 0.2)) and pmin >= 0:
            continue
        for chg in (None, "required_pressure", "minimum_pressure", "pressure_exponent"):
            out.append({"seam": "dynamic", "pmin": pmin, "preq": preq, "exp": e, "mode": mode, "change": chg})
        # requested demand exactly zero in the first pattern period (and again later), non-zero in between
        out.append({"seam": "dynamic", "pmin": pmin, "preq": preq, "exp": e, "mode": mode, "change": None, "dmul": [0.0, 2.0, 0.5, 0.0, 1.5]})
    return out


def gref(p, pmin, preq, e):
    if p <= pmin:
        return 0.0
    if p >= preq:
        return 1.0
    return ((p - pmin) / (preq - pmin)) ** e


def one_junction(spec_case, rhead=30.0, D=None):
    o, j = params(spec_case["mode"], spec_case["pmin"], spec_case["preq"], spec_case["exp"])
    D = spec_case.get("D", 0.01) if D is None else D
    return spec([R("R", rhead), J("J", 2.0, [[D, None, None]], **j)], [P("p", "R", "J", L=100.0, D=0.3)],
                OPTS(dur=0, dm="PDD", **o))


def model_seam(c):
    import numpy as np, wntr
    pmin, preq, e, D = c["pmin"], c["preq"], c["exp"], c["D"]
    s = one_junction(c)
    wn = build(s)
    m, upd = wntr.sim.hydraulics.create_hydraulic_model(wn)
    m.set_structure()
    con = m.pdd["J"]
    elev = 2.0
    m.demand["J"].value = 0.0
    Dm = m.expected_demand["J"].value
    viol, n = [], 0
    if abs(Dm - D) > 1e-15:
        viol.append({"key": "requested-demand", "what": "model requests %.6g, junction demand %.6g" % (Dm, D)})
    grid = list(np.linspace(pmin - 5.0, preq + 5.0, 400))
    for edge in (pmin, pmin + DELTA, preq - DELTA, preq):
        for d in (1e-9, DELTA / 2, DELTA):
            grid += [edge - d, edge + d]
    grid = sorted(set(grid))
    g = []
    for p in grid:
        m.head["J"].value = elev + p
        res = m.evaluate_residuals()[con.index]
        n += 1
        if D == 0.0:
            if res != 0.0:
                viol.append({"key": "zero-demand", "what": "requested demand 0 but pdd residual %.3g at p=%.6g" % (res, p)})
                break
            g.append(0.0)
        else:
            g.append(-res / Dm)
    tag = "e=%g" % e
    if D > 0 and not viol:
        for p, gv in zip(grid, g):
            if p <= pmin:
                ok = abs(gv) <= NOISE
            elif p >= preq:
                ok = abs(gv - 1.0) <= NOISE
            elif pmin + DELTA < p < preq - DELTA:
                ok = abs(gv - gref(p, pmin, preq, e)) <= NOISE
            else:
                ok = -NOISE <= gv <= 1.0 + NOISE
            if not ok:
                viol.append({"key": "curve-value", "what": "g(p=%.9g)=%.9g, documented %.9g (Pmin=%g Preq=%g %s)" % (p, gv, gref(p, pmin, preq, e), pmin, preq, tag)})
                break
        for (p0, g0), (p1, g1) in zip(zip(grid, g), zip(grid[1:], g[1:])):
            if g1 < g0 - NOISE:
                viol.append({"key": "not-monotone", "what": "g decreases from %.9g at p=%.9g to %.9g at p=%.9g (Pmin=%g Preq=%g %s)" % (g0, p0, g1, p1, pmin, preq, tag)})
                break
            if p1 - p0 <= 2.1e-9 and abs(g1 - g0) > 1e-6:
                viol.append({"key": "not-continuous", "what": "g jumps from %.9g to %.9g across p=%.9g (Pmin=%g Preq=%g %s)" % (g0, g1, p0, pmin, preq, tag)})
                break
    return {"viol": viol, "nontrivial": D > 0, "outcome": "model:%s" % c["mode"], "counts": {"residual_evaluations": n}}


def system_seam(c):
    pmin, preq, e = c["pmin"], c["preq"], c["exp"]
    s = one_junction(dict(c, D=0.01), rhead=2.0 + c["rhead"])
    if c.get("order"):
        # order of API calls: the simulator object exists BEFORE the model is switched to the pressure-dependent demand
        # model (sim-first), or has already run the model demand-driven (dd-run-first, reset in between)
        import wntr, warnings
        wn = build(s)
        wn.options.hydraulic.demand_model = "DD"
        sim = wntr.sim.WNTRSimulator(wn)
        with warnings.catch_warnings():
            warnings.simplefilter("ignore")
            if c["order"] == "dd-run-first":
                sim.run_sim()
                wn.reset_initial_values()
            wn.options.hydraulic.demand_model = "PDD"
            r = wrap(sim.run_sim(), wn)
    else:
        r = simulate(s)
    if r.error:
        return {"viol": [], "nontrivial": False, "outcome": "not-converged", "counts": {"not_converged": 1}}
    p, d = float(r.node["pressure"]["J"][0]), float(r.node["demand"]["J"][0])
    viol = []
    lo = gref(min(max(p, pmin), pmin + DELTA) if p < pmin + DELTA else p, pmin, preq, e)
    if pmin + DELTA < p < preq - DELTA or p <= pmin or p >= preq:
        if abs(d - 0.01 * gref(p, pmin, preq, e)) > 1e-6:
            viol.append({"key": "system-curve", "what": "reported demand %.9g at reported pressure %.9g, documented %.9g (Pmin=%g Preq=%g e=%g %s)" % (d, p, 0.01 * gref(p, pmin, preq, e), pmin, preq, e, c["mode"])})
    elif not (-1e-9 <= d <= 0.01 + 1e-9):
        viol.append({"key": "system-curve", "what": "reported demand %.9g outside [0, D] at pressure %.9g" % (d, p)})
    regime = "below" if p <= pmin else ("above" if p >= preq else "between")
    return {"viol": viol, "nontrivial": True, "outcome": "system:%s" % regime, "counts": {"system_runs": 1}}


def override_local(c):
    """two junctions, only J1 carries overrides: J2 must behave exactly as in the run without overrides on J1."""
    pmin, preq, e = c["pmin"], c["preq"], c["exp"]

    def mk(over):
        j1 = J("J1", 2.0, [[0.01, None, None]], **({"pmin": pmin, "preq": preq, "pexp": e} if over else {}))
        # J2 hangs on its own pipe from the reservoir so that J1's demand does not change J2's pressure
        return spec([R("R", 14.0), j1, J("J2", 2.0, [[0.01, None, None]])],
                    [P("p1", "R", "J1", L=100.0), P("p2", "R", "J2", L=100.0)],
                    OPTS(dur=0, dm="PDD", pmin=OTHER[0], preq=OTHER[1], pexp=OTHER[2]))
    a, b = simulate(mk(True)), simulate(mk(False))
    viol = []
    if a.error or b.error:
        return {"viol": [], "nontrivial": False, "outcome": "not-converged", "counts": {"not_converged": 1}}
    d2a, d2b = float(a.node["demand"]["J2"][0]), float(b.node["demand"]["J2"][0])
    p2 = float(a.node["pressure"]["J2"][0])
    if abs(d2a - d2b) > 1e-9 or abs(d2a - 0.01 * gref(p2, *OTHER)) > 1e-6:
        viol.append({"key": "override-leaks", "what": "J2 (no overrides) delivers %.9g with overrides on J1, %.9g without, documented %.9g" % (d2a, d2b, 0.01 * gref(p2, *OTHER))})
    p1, d1 = float(a.node["pressure"]["J1"][0]), float(a.node["demand"]["J1"][0])
    if (pmin + DELTA < p1 < preq - DELTA or p1 <= pmin or p1 >= preq) and abs(d1 - 0.01 * gref(p1, pmin, preq, e)) > 1e-6:
        viol.append({"key": "override-ignored", "what": "J1 with overrides (%g,%g,%g) delivers %.9g at p=%.9g, documented %.9g" % (pmin, preq, e, d1, p1, 0.01 * gref(p1, pmin, preq, e))})
    return {"viol": viol, "nontrivial": True, "outcome": "override", "counts": {"system_runs": 2}}


def dynamic_seam(c):
    import wntr
    from wntr.network import controls as C
    pmin, preq, e = c["pmin"], c["preq"], c["exp"]
    o, j = params(c["mode"], pmin, preq, e)
    w = preq - pmin
    heads = [2.0 + pmin - 1.0, 2.0 + pmin + 0.3 * w, 2.0 + pmin + 0.7 * w, 2.0 + preq + 5.0, 2.0 + pmin + 0.5 * w, 2.0 + pmin + 0.85 * w, 2.0 + pmin + 0.15 * w]
    dmul = c.get("dmul", [1.0, 2.0, 0.5, 1.5])
    s = spec([R("R", 1.0, head_pat="HP"), J("J", 2.0, [[0.01, "DP", None]], **j)], [P("p", "R", "J", L=100.0, D=0.3)],
             OPTS(dur=6 * 3600, dm="PDD", **o), patterns={"HP": heads, "DP": dmul})
    wn = build(s)
    new = {"required_pressure": preq + 0.5 * w, "minimum_pressure": pmin + 0.4 * w, "pressure_exponent": 0.75 if e != 0.75 else 0.5}.get(c["change"])
    if c["change"]:
        wn.add_control("chg", C.Control(C.SimTimeCondition(wn, "=", 2 * 3600), C.ControlAction(wn.get_node("J"), c["change"], new)))
    r = simulate(s, wn=wn)
    if r.error:
        return {"viol": [{"key": "dynamic:run-fails", "what": "PDD run with a %s change does not complete: %s" % (c["change"], r.warnings[:1])}], "nontrivial": True, "outcome": "dynamic:fails", "counts": {"system_runs": 1}}
    viol, regimes = [], set()
    for i, t in enumerate(r.times):
        pm, pq, ex = pmin, preq, e
        if c["change"] and t >= 2 * 3600:
            pm, pq, ex = (new if c["change"] == "minimum_pressure" else pm), (new if c["change"] == "required_pressure" else pq), (new if c["change"] == "pressure_exponent" else ex)
        D = 0.01 * dmul[(t // 3600) % len(dmul)]
        p, d = float(r.node["pressure"]["J"][i]), float(r.node["demand"]["J"][i])
        regimes.add("below" if p <= pm else ("above" if p >= pq else "between"))
        if pm + DELTA < p < pq - DELTA or p <= pm or p >= pq:
            if abs(d - D * gref(p, pm, pq, ex)) > 1e-6:
                viol.append({"key": "dynamic-curve" + (":after-%s-change" % c["change"] if c["change"] and t >= 7200 else ""),
                             "what": "t=%d: reported demand %.9g at reported pressure %.9g, documented %.9g (parameters in force Pmin=%g Preq=%g e=%g, requested %.4g, %s%s)" % (
                                 t, d, p, D * gref(p, pm, pq, ex), pm, pq, ex, D, c["mode"], (", %s set to %g at t=7200" % (c["change"], new)) if c["change"] else "")})
                break
        elif not (-1e-9 <= d <= D + 1e-9):
            viol.append({"key": "dynamic-curve", "what": "t=%d: reported demand %.9g outside [0, D=%.4g] at pressure %.9g" % (t, d, D, p)})
            break
    return {"viol": viol, "nontrivial": len(regimes) == 3, "outcome": "dynamic:%s" % (c["change"] or ("zero-demand-periods" if c.get("dmul") else "static")), "counts": {"system_runs": 1, "dynamic_steps": len(r.times)}}


def run_case(c):
    return {"model": model_seam, "system": system_seam, "override-local": override_local, "dynamic": dynamic_seam}[c["seam"]](c)
