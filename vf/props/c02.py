"""C02 - every link obeys the head-flow law of its type and reported status."""
import math
from .. import netspace as ns
from ..net import *

ID = "C02"
LEVEL = "exploration"
QTOL = 2.83168e-6
RULE = ("(a) law in isolation: R1-pa-J1-[link]-J2-pb-R2, link kind x parameter alphabet x 10 head differences "
        "{-20,-1,-1e-3,-1e-5,0,1e-5,1e-3,1,20,60} x HW_approx{default,piecewise}, fully crossed; (b) netspace d<=1 (quick) / "
        "d<=2 over link deviations (thorough) with all reported steps; (c) edit-then-rerun of every link parameter; (d) valve settings changed during the run by time controls and by a pressure condition evaluated after the solve (8 valve/setting pairs x 3 threshold/peak variants); oracle per link and step chosen by reported status "
        "(HW+minor, A-B*Q^C from the curve points, power, valve settings, loss coefficients, no reverse flow). "
        "non-trivial: some link carries |q| > 1e-5 or is reported closed under a head difference")
ASSUMPTIONS = ["documented constants: HW 10.667*C^-1.852*D^-4.871*L*q^1.852 (relative slack 5e-5 for the last documented digit), "
               "minor loss 8K/(g*pi^2*D^4)*q^2, g=9.81, rho=1000",
               "smoothing allowance: default approximation 1e-5*sqrt(k)*|q|; piecewise exact outside |q|<=4e-4"]

DH = [-20.0, -1.0, -1e-3, -1e-5, 0.0, 1e-5, 1e-3, 1.0, 20.0, 60.0]


def iso_spec(lk, dh, hw):
    nodes = [R("R1", 50.0), J("J1", 0.0, [[0.0, None, None]]), J("J2", 0.0, [[0.0, None, None]]), R("R2", 50.0 - dh)]
    links = [P("pa", "R1", "J1", L=10.0, D=1.0, C=140.0), dict(lk, n="x", a="J1", b="J2"), P("pb", "J2", "R2", L=10.0, D=1.0, C=140.0)]
    s = spec(nodes, links, OPTS(dur=0), hw=hw)
    s["id"] = {"iso": lk["t"], "dh": dh, "hw": hw}
    return s


def iso_links(tier):
    out = []
    Ls, Ds, Cs, Ks = [50.0, 500.0, 2000.0], [0.1, 0.3, 0.6], [60.0, 100.0, 140.0], [0.0, 5.0]
    if tier == "quick":  # d<=1 around (500, 0.3, 100, 0) plus K x D
        combos = set()
        for L in Ls: combos.add((L, 0.3, 100.0, 0.0))
        for D in Ds:
            for K in Ks: combos.add((500.0, D, 100.0, K))
        for C in Cs: combos.add((500.0, 0.3, C, 0.0))
    else:
        combos = set((L, D, C, K) for L in Ls for D in Ds for C in Cs for K in Ks)
    for L, D, C, K in sorted(combos):
        for cv in (False, True):
            for st in ("OPEN", "CLOSED"):
                if st == "CLOSED" and (L, D, C, K) != (500.0, 0.3, 100.0, 0.0):
                    continue
                out.append(P("x", "J1", "J2", L=L, D=D, C=C, K=K, status=st, cv=cv))
    curves = [[[0.05, 30.0]], [[0.02, 55.0]], [[0.0, 40.0], [0.1, 10.0]], [[0.02, 38.0], [0.08, 14.0]],
              [[0.0, 40.0], [0.05, 32.0], [0.1, 12.0]], [[0.0, 60.0], [0.03, 50.0], [0.06, 20.0]],
              # three points whose first one is NOT the shut-off point: the documented fit of H = A - B*Q^C passes through all three
              [[0.03, 45.0], [0.06, 35.0], [0.09, 15.0]], [[0.01, 58.0], [0.05, 40.0], [0.08, 12.0]]]
    for c in curves:
        for st in ("OPEN", "CLOSED"):
            out.append(HP("x", "J1", "J2", c, status=st))
    for pw in (5000.0, 50000.0):
        for st in ("OPEN", "CLOSED"):
            out.append(PP("x", "J1", "J2", pw, status=st))
    for vt, sets in (("PRV", (20.0, 45.0, 80.0)), ("PSV", (20.0, 45.0, 80.0)), ("FCV", (0.001, 0.05, 5.0)), ("TCV", (0.0, 50.0, 500.0))):
        for sv in sets:
            for K in (0.0, 5.0):
                for st in ("ACTIVE", "OPEN", "CLOSED"):
                    for D in ((0.3,) if tier == "quick" else (0.1, 0.3)):
                        out.append(V("x", "J1", "J2", vt, sv, D=D, K=K, status=st))
    return out


LINKDEV = {"reverse", "closed", "cv", "K5", "D100", "D600", "C60", "C140", "L50", "L2000", "hpump1", "hpump2", "hpump3",
           "ppump", "valve", "piecewise", "hyd15all", "small", "near_max", "near_min", "elev_high", "pdd", "revorder",
           "headpat", "pstart1h", "pstart90m", "hyd30", "ctl_toggle"}


EDITS = [
    (HP("x", "J1", "J2", [[0.05, 30.0]]), [("curve_points", [[0.05, 45.0]]), ("curve_points", [[0.0, 40.0], [0.05, 32.0], [0.1, 12.0]]), ("curve_name", [[0.02, 55.0]])]),
    (HP("x", "J1", "J2", [[0.0, 40.0], [0.1, 10.0]]), [("curve_points", [[0.0, 60.0], [0.12, 5.0]]), ("curve_points_inplace", [[0.0, 60.0], [0.12, 5.0]])]),
    (HP("x", "J1", "J2", [[0.0, 40.0], [0.05, 32.0], [0.1, 12.0]]), [("curve_points", [[0.0, 60.0], [0.03, 50.0], [0.06, 20.0]]), ("curve_name", [[0.05, 30.0]])]),
    (PP("x", "J1", "J2", 5000.0), [("power", 50000.0)]),
    (P("x", "J1", "J2", L=500.0, D=0.3, C=100.0, K=0.0), [("diameter", 0.1), ("roughness", 60.0), ("length", 2000.0), ("minor_loss", 5.0), ("check_valve", True)]),
    (V("x", "J1", "J2", "TCV", 50.0, D=0.3, K=0.0), [("initial_setting", 500.0), ("minor_loss", 5.0), ("diameter", 0.1)]),
    (V("x", "J1", "J2", "PRV", 20.0, D=0.3, K=0.0), [("initial_setting", 45.0)]),
    (V("x", "J1", "J2", "FCV", 0.05, D=0.3, K=0.0), [("initial_setting", 0.001)]),
]


def apply_edit(wn, s, ed):
    """performs the edit on the model through the public API and returns the spec that describes the edited model"""
    kind, val = ed
    s2 = clone(s)
    x, l = link(s2, "x"), wn.get_link("x")
    if kind == "curve_points":
        wn.get_curve(l.pump_curve_name).points = [tuple(p) for p in val]
        x["curve"] = val
    elif kind == "curve_points_inplace":
        pts = wn.get_curve(l.pump_curve_name).points
        pts[:] = [tuple(p) for p in val]
        x["curve"] = val
    elif kind == "curve_name":
        wn.add_curve("edited", "HEAD", [tuple(p) for p in val])
        l.pump_curve_name = "edited"
        x["curve"] = val
    elif kind == "power":
        l.power = val; x["power"] = val
    elif kind in ("diameter", "roughness", "length", "minor_loss"):
        setattr(l, kind, val); x[{"diameter": "D", "roughness": "C", "length": "L", "minor_loss": "K"}[kind]] = val
    elif kind == "check_valve":
        l.check_valve = val; x["cv"] = val
    elif kind == "initial_setting":
        l.initial_setting = val; x["setting"] = val
    else:
        raise KeyError(kind)
    return s2


def cases(tier):
    out = []
    for lk in iso_links(tier):
        for dh in DH:
            for hw in ("default", "piecewise"):
                out.append(iso_spec(lk, dh, hw))
    # edit-then-rerun: the same model object is simulated, ONE parameter of link x is changed through its public setter, the
    # model is reset and simulated again; the law is judged with the edited parameters (caches must not survive an edit)
    for lk, edits in EDITS:
        for ed in edits:
            for dh in ((20.0,) if tier == "quick" else (-20.0, 1.0, 20.0, 60.0)):
                s = iso_spec(lk, dh, "default")
                s["edit"] = ed
                s["id"] = dict(s["id"], edit=ed[0])
                out.append(s)
    # a valve whose setting is changed DURING the run by a time control: the law must hold with the setting in force
    for vt, s0, s1 in (("TCV", 50.0, 500.0), ("TCV", 500.0, 0.0), ("PRV", 20.0, 45.0), ("PSV", 45.0, 20.0), ("FCV", 0.05, 0.001), ("FCV", 0.001, 0.05)):
        for dh in (20.0, 60.0):
            s = iso_spec(V("x", "J1", "J2", vt, s0, D=0.3, K=0.0), dh, "default")
            s["opts"].update(dur=3 * 3600)
            s["controls"] = [{"kind": "time", "t": 3600, "link": "x", "attr": "setting", "value": s1},
                             {"kind": "time", "t": 2 * 3600, "link": "x", "attr": "setting", "value": s0}]
            s["id"] = dict(s["id"], setting_control=[s0, s1])
            out.append(s)
    # a link that is CLOSED when the run starts and opened by a time control after the first step: from then on it obeys
    # the law of its kind (every kind of the isolation rig that has a closed variant)
    for lk in iso_links(tier):
        if lk["status"] != "CLOSED":
            continue
        for dh in (20.0, -20.0):
            s = iso_spec(lk, dh, "default")
            s["opts"].update(dur=2 * 3600)
            s["controls"] = [{"kind": "time", "t": 3600, "link": "x", "value": "ACTIVE" if lk["t"] in ("PRV", "PSV", "FCV", "TCV") else "OPEN"}]
            s["id"] = dict(s["id"], opened_at=3600)
            out.append(s)
    # ... and by a conditional control on a junction pressure (evaluated AFTER the solve of a step: the step has to be
    # solved again with the new setting).  R(80)-pa-J1; J1-x-J2-pb-R2(20); J1-pc-J3(patterned demand, its pressure drops
    # below the threshold in the peak period).  The law is judged with the REPORTED setting.
    for vt, s0, s1 in (("TCV", 50.0, 500.0), ("TCV", 500.0, 0.0), ("PRV", 30.0, 45.0), ("PRV", 45.0, 30.0), ("PSV", 70.0, 76.0), ("PSV", 76.0, 70.0),
                       ("FCV", 0.04, 0.015), ("FCV", 0.015, 0.04)):
        for thr, peak in ((70.0, 1.7), (70.0, 1.2), (60.0, 1.7)):
            nodes = [R("R", 80.0), J("J1", 0.0, [[0.0, None, None]]), J("J2", 0.0, [[0.0, None, None]]), R("R2", 20.0),
                     J("J3", 0.0, [[0.03, "PK", None]])]
            links = [P("pa", "R", "J1", L=300.0, D=0.35, C=120.0), V("x", "J1", "J2", vt, s0, D=0.3, K=0.0),
                     P("pb", "J2", "R2", L=400.0, D=0.25, C=110.0), P("pc", "J1", "J3", L=900.0, D=0.2, C=100.0)]
            s = spec(nodes, links, OPTS(dur=5 * 3600), patterns={"PK": [0.5, 0.6, peak, peak, 1.0, 0.6]})
            s["controls"] = [{"kind": "pressure", "node": "J3", "rel": "<", "thr": thr, "link": "x", "attr": "setting", "value": s1}]
            s["id"] = {"postsolve_setting": [vt, s0, s1], "thr": thr, "peak": peak}
            out.append(s)
    keep = lambda d: d["k"] in LINKDEV
    if tier == "quick":
        out += ns.enumerate_cases(1, keep=keep)
        # source heads that move during the run: head pattern x pattern start / step
        named = [{"headpat", "pstart1h"}, {"headpat", "pstart90m"}, {"headpat", "hyd30"}, {"headpat", "reverse"},
                 {"reverse", "closed"}, {"reverse", "ctl_toggle"}, {"reverse", "cv"}]      # orientation x closure (parallel links!)
        names = set().union(*named)
        out += [c for c in ns.enumerate_cases(2, keep=lambda d: d["k"] in names, pairs_keep=lambda a, b: {a["k"], b["k"]} in named)
                if len(c["id"]["devs"]) == 2]
    else:
        out += ns.enumerate_cases(2, keep=keep)
    return out


def pump_abc(curve):
    """reference coefficients of H = A - B*Q^C from the curve points (EPANET rules)."""
    if len(curve) == 1:
        q, h = curve[0]
        return 4.0 / 3.0 * h, h / (3.0 * q * q), 2.0
    if len(curve) == 2:
        (q0, h0), (q1, h1) = curve
        B = -(h1 - h0) / (q1 - q0)
        return h0 + B * q0, B, 1.0
    (q0, h0), (q1, h1), (q2, h2) = curve
    if q0 == 0.0:
        C = math.log((h0 - h1) / (h0 - h2)) / math.log(q1 / q2)
        return h0, (h0 - h1) / q1 ** C, C
    # the curve through three points with q0 > 0: (h0-h1)/(h0-h2) = (q1^C - q0^C)/(q2^C - q0^C), solved for C by bisection
    f = lambda C: (q1 ** C - q0 ** C) / (q2 ** C - q0 ** C) - (h0 - h1) / (h0 - h2)
    lo, hi = 0.05, 20.0
    assert f(lo) * f(hi) < 0
    for _ in range(200):
        mid = 0.5 * (lo + hi)
        if f(lo) * f(mid) <= 0:
            hi = mid
        else:
            lo = mid
    C = 0.5 * (lo + hi)
    B = (h0 - h1) / (q1 ** C - q0 ** C)
    return h0 + B * q0 ** C, B, C


def minor(K, D, q):
    return math.copysign(8.0 * K / (G * math.pi ** 2 * D ** 4) * q * q, q)


def check_links(s, r, viol, counts):
    head, pres = r.node["head"], r.node["pressure"]
    q, st, sett = r.link["flowrate"], r.link["status"], r.link["setting"]

    def bad(key, what):
        viol.append({"key": key, "what": what})
    piecewise = s.get("hw") == "piecewise"
    conn = [connected_to_source(s, set(x for x in st if st[x][i] == 0)) for i in range(len(r.times))]
    for l in s["links"]:
        n = l["n"]
        for i, t in enumerate(r.times):
            if l["a"] not in conn[i] or l["b"] not in conn[i]:
                # an end node is cut off from every source: the link is outside the hydraulic model (C09 judges it)
                counts["isolated_link_steps"] = counts.get("isolated_link_steps", 0) + 1
                continue
            qi, si = float(q[n][i]), int(st[n][i])
            dh = float(head[l["a"]][i] - head[l["b"]][i])
            counts["link_steps"] = counts.get("link_steps", 0) + 1
            where = "link %s (%s) t=%d q=%.9g dh=%.9g status=%d" % (n, l["t"], t, qi, dh, si)
            if si == 0:
                if abs(qi) > 1e-6:
                    bad("closed-flow:%s" % l["t"], "closed link carries flow: " + where); return
                continue
            if l["t"] == "pipe":
                k = 10.667 * l["C"] ** -1.852 * l["D"] ** -4.871 * l["L"]
                loss = hw_loss(qi, l["L"], l["D"], l["C"], l["K"])
                slack = 1e-6 + 5e-5 * abs(loss)
                if piecewise:
                    if abs(qi) <= 4e-4 * 1.0001:
                        ok = abs(dh - minor(l["K"], l["D"], qi)) <= k * (4e-4) ** 1.852 * 1.01 + slack and (abs(dh) <= 2e-6 or abs(qi) < 1e-9 or (dh > 0) == (qi > 0))
                    else:
                        ok = abs(dh - loss) <= slack
                else:
                    ok = abs(dh - loss) <= slack + 1.05e-5 * math.sqrt(k) * abs(qi)
                if not ok:
                    bad("pipe-law:%s" % ("piecewise" if piecewise else "default"), "open pipe off Hazen-Williams+minor (expected dh %.9g): " % loss + where); return
                if l["cv"] and qi < -QTOL:
                    bad("cv-reverse", "check-valve pipe reports reverse flow: " + where); return
            elif l["t"] == "hpump":
                A, B, C = pump_abc(l["curve"])
                if qi < -QTOL:
                    bad("pump-reverse:hpump" + (":at-shutoff-head" if abs(-dh - A) <= 1e-4 else ""), "head pump reports reverse flow: " + where); return
                if qi > 1e-8:
                    gain = A - B * qi ** C
                    if abs(-dh - gain) > (1e-6 + 1e-6 * A if l["curve"][0][0] == 0.0 or len(l["curve"]) < 3 else 1e-4):      # (regression fit: its own tolerance)
                        bad("hpump-law:%dpt" % len(l["curve"]), "open head pump off H=A-B*Q^C (A=%.6g B=%.6g C=%.6g, expected gain %.9g): " % (A, B, C, gain) + where); return
                else:
                    if not (A - 1e-4 <= -dh <= A + 1e-4):
                        bad("hpump-toe", "head pump at ~zero flow does not deliver shut-off head %.6g: " % A + where); return
            elif l["t"] == "ppump":
                if qi < -QTOL:
                    bad("pump-reverse:ppump:%s" % ("start-head-above-end-head" if dh > 0 else "uphill"), "power pump reports reverse flow: " + where); return
                pw = 1000.0 * G * qi * (-dh)
                if abs(pw - l["power"]) > 1e-3 + 1e-6 * l["power"]:
                    bad("ppump-law", "power pump delivers %.6g W, set %.6g W: " % (pw, l["power"]) + where); return
            else:
                vt = l["t"]
                # the setting in force at this step: the valve's own, or the last one commanded by a time control
                cur = l["setting"]
                timed = [c for c in s["controls"] if c.get("attr") == "setting" and c["link"] == n and c["kind"] == "time"]
                for c in sorted(timed, key=lambda c: c["t"]):
                    if c["t"] <= t:
                        cur = c["value"]
                only_timed = len(timed) == len(s["controls"])
                if any(c.get("attr") == "setting" and c["link"] == n and c["kind"] != "time" for c in s["controls"]):
                    cur = float(sett[n][i])     # commanded by a condition on the hydraulic state: the reported setting is the one in force
                    counts["reported_setting_steps"] = counts.get("reported_setting_steps", 0) + 1
                l = dict(l, setting=cur)
                if abs(float(sett[n][i]) - l["setting"]) > 1e-12 and (not s["controls"] or only_timed):
                    bad("valve-setting-report", "reported setting %.9g differs from the valve setting %.9g: " % (sett[n][i], l["setting"]) + where); return
                if vt == "TCV" and si == 1 and l["status"] == "ACTIVE" and not s["controls"]:
                    # a throttle control valve has no internal rule that opens it: only a user command can
                    bad("tcv-reported-open", "a TCV that nobody opened is reported Open (its setting %.6g is not applied): " % l["setting"] + where); return
                if si == 2:
                    if vt == "PRV":
                        ok = abs(float(pres[l["b"]][i]) - l["setting"]) <= 1e-5
                    elif vt == "PSV":
                        ok = abs(float(pres[l["a"]][i]) - l["setting"]) <= 1e-5
                    elif vt == "FCV":
                        ok = abs(qi - l["setting"]) <= 1e-6
                    else:
                        ok = abs(dh - minor(l["setting"], l["D"], qi)) <= 1e-6 + 1e-9 * abs(dh)
                    if not ok:
                        bad("valve-active:%s" % vt, "active %s does not hold its setting %.6g (p_up=%.6g p_down=%.6g): " % (vt, l["setting"], pres[l["a"]][i], pres[l["b"]][i]) + where); return
                else:
                    if abs(dh - minor(l["K"], l["D"], qi)) > 1e-6 + 1e-9 * abs(dh):
                        bad("valve-open:%s" % vt, "open %s does not obey its minor-loss coefficient: " % vt + where); return


def run_case(s):
    if s.get("edit"):
        wn = build(s)
        r0 = simulate(s, wn=wn)
        s = apply_edit(wn, s, s["edit"])
        wn.reset_initial_values()
        r = simulate(s, wn=wn)
        if r.error or r0.error:
            return {"viol": [], "nontrivial": False, "outcome": "not-converged", "counts": {"not_converged": 1}}
        viol, counts = [], {"edit_reruns": 1}
        check_links(s, r, viol, counts)
        for v in viol:
            v["key"] = "after-edit:%s:%s" % (s["edit"][0], v["key"]); v["what"] = "after a run, the edit %s and a second run: %s" % (s["edit"], v["what"])
        changed = abs(float(r.link["flowrate"]["x"][0]) - float(r0.link["flowrate"]["x"][0])) > 1e-7
        return {"viol": viol, "nontrivial": changed, "outcome": "edit:%s:%s" % (link(s, "x")["t"], "changed" if changed else "same"), "counts": counts}
    r = simulate(s)
    if r.error:
        return {"viol": [], "nontrivial": False, "outcome": "not-converged", "counts": {"not_converged": 1}}
    viol, counts = [], {}
    check_links(s, r, viol, counts)
    q, st = r.link["flowrate"], r.link["status"]
    if "iso" in s.get("id", {}):
        x = link(s, "x")
        qi, si = float(q["x"][0]), int(st["x"][0])
        nontriv = abs(qi) > 1e-5 or (si == 0 and abs(s["id"]["dh"]) >= 1e-3)
        out = "%s:st%d:%s" % (x["t"], si, "+" if qi > 1e-5 else ("-" if qi < -1e-5 else "0"))
        # oddness of the pipe law: mirrored heads give the mirrored flow
        if x["t"] == "pipe" and not x["cv"] and x["status"] == "OPEN" and abs(s["id"]["dh"]) >= 1.0 and not viol:
            s2 = clone(s)
            node(s2, "R2")["head"] = 50.0 + s["id"]["dh"]
            r2 = simulate(s2)
            counts["odd_checks"] = 1
            q2 = float(r2.link["flowrate"]["x"][0])
            if r2.error or abs(q2 + qi) > 1e-4 * abs(qi) + 1e-7:
                viol.append({"key": "pipe-odd", "what": "mirrored head difference gives q=%.9g, original q=%.9g" % (q2, qi)})
    elif "postsolve_setting" in s.get("id", {}):
        se = r.link["setting"]["x"]
        fired = [i for i in range(1, len(r.times)) if se[i] != se[i - 1]]
        nontriv = any(int(st["x"][i]) == 2 and int(st["x"][i - 1]) == 2 for i in fired)
        out = "postsolve:%s:%s" % (s["id"]["postsolve_setting"][0], "fired-while-active" if nontriv else ("fired" if fired else "never"))
    else:
        nontriv = max(abs(q[l]).max() for l in q) > 1e-5
        out = "net:" + ",".join(sorted(set("%s%d" % (l["t"][:2], int(v)) for l in s["links"] for v in set(st[l["n"]]))))
    return {"viol": viol, "nontrivial": bool(nontriv), "outcome": out, "counts": counts}
