"""C11 - simulating never alters the model definition; reset and rerun reproduce results."""
import copy, itertools, json
from ..net import *

ID = "C11"
LEVEL = "model_checking"
RULE = ("operations {runW (new WNTRSimulator), runWs (WNTRSimulator object of the previous run reused), runE (EpanetSimulator), runE20 (EpanetSimulator with version=2.0, at most once per history), reset (reset_initial_values), copy (deepcopy, continue on the "
        "copy), reload (write_json/read_json, continue on the reloaded model)}; ALL histories of length <= 3 (quick) / <= 4 "
        "(thorough) over 25 models carrying: status time controls on a pipe, a pump and a valve; a valve setting control; a pump "
        "speed control; tank-level controls; a leak window; a rule with ELSE; PDD; an initially CLOSED pump and an initially "
        "CLOSED / OPEN valve built through the API (no reset after building); a volume-curve tank; a head pump; a head pump pushed beyond the end of its curve; report steps the simulator adjusts for itself (shorter than / not a multiple of the hydraulic step); nine of them additionally with the operation edit (ONE definition edit through the public API followed by reset_initial_values(): pipe diameter, pump curve points, pattern multipliers, volume curve points, junction required pressure, leak replaced, valve initial setting, valve initial status, tank initial level) after which the model must behave like one built with the edited value from scratch.  A state is a history prefix "
        "(runtime state of live objects cannot be canonicalised, so prefixes are not merged); every transition replays the history "
        "on a fresh real model.  invariant in every state: to_dict(wn) (JSON-normalised) equals the initial dictionary.  oracles: "
        "runW on a fresh state (initial, after reset, reloaded, or a copy of one) equals the first fresh runW of that model (1e-9); "
        "every runE equals the first runE (1e-6 relative: float32 binary output).  non-trivial: a history with >= 2 simulator runs")
ASSUMPTIONS = ["'fresh' = initial model, after reset_initial_values(), after a JSON reload, or a deepcopy of a fresh model",
               "speed controls are only run with EpanetSimulator-supported semantics; WNTRSimulator refusing them (NotImplementedError) is a documented refusal"]

OPS = ["runW", "runWs", "runE", "runE20", "reset", "copy", "reload"]      # runWs: WNTRSimulator run on the simulator OBJECT of the previous run
H = 3600


def base(dur=5):
    return spec([R("R", 50.0), J("J1", 0.0, [[0.01, "P1", None]]), J("J2", 5.0, [[0.02, "P1", None]]), T("T", elev=30.0, init=3.0, mn=0.5, mx=6.0, diam=10.0)],
                [P("p1", "R", "J1"), P("p2", "J1", "J2"), P("p3", "J2", "T"), P("p4", "J1", "J2", L=900.0, D=0.2)],
                OPTS(dur=dur * H), patterns={"P1": [1.0, 1.6, 0.6]})


def models():
    M = {}
    s = base(); s["controls"] = [{"kind": "time", "t": 2 * H, "link": "p2", "value": "CLOSED"}, {"kind": "time", "t": 4 * H, "link": "p2", "value": "OPEN"}]
    M["pipe_status"] = s
    s = base(); s["nodes"][0]["head"] = 30.0; node(s, "T")["diam"] = 20.0     # (15 kW from 10 m does not converge: C03's power-pump finding)
    s["links"][0] = PP("p1", "R", "J1", 2000.0)
    s["controls"] = [{"kind": "time", "t": 2 * H, "link": "p1", "value": "CLOSED"}, {"kind": "time", "t": 3 * H, "link": "p1", "value": "OPEN"}]
    M["pump_status"] = s
    s = base(); s["links"][3] = V("p4", "J1", "J2", "TCV", 5.0, D=0.2)
    s["controls"] = [{"kind": "time", "t": 2 * H, "link": "p4", "value": "CLOSED"}, {"kind": "time", "t": 3 * H, "link": "p4", "attr": "setting", "value": 60.0},
                     {"kind": "time", "t": 4 * H, "link": "p4", "value": "OPEN"}]
    M["valve_status_setting"] = s
    s = base(); s["links"][1] = V("p2", "J1", "J2", "PRV", 30.0, D=0.3)
    s["controls"] = [{"kind": "time", "t": 2 * H, "link": "p2", "attr": "setting", "value": 20.0}]
    M["prv_setting"] = s
    s = base(); node(s, "T")["diam"] = 5.0
    s["controls"] = [{"kind": "level", "node": "T", "rel": ">", "thr": 4.0, "link": "p1", "value": "CLOSED"},
                     {"kind": "level", "node": "T", "rel": "<", "thr": 2.0, "link": "p1", "value": "OPEN"}]
    M["level_controls"] = s
    s = base(); node(s, "J2")["leak"] = {"area": 5e-4, "cd": 0.75, "start": 1 * H, "end": 3 * H}
    M["leak"] = s
    s = base(); node(s, "J1")["leak"] = {"area": 3e-4, "cd": 0.75, "start": 2 * H, "end": None}      # still active when the run ends
    node(s, "T")["leak"] = {"area": 2e-4, "cd": 0.75, "start": 3 * H, "end": None}
    M["leak_open_end"] = s
    s = base(); node(s, "T")["diam"] = 5.0
    s["controls"] = [{"kind": "level", "node": "T", "rel": ">", "thr": 3.6, "link": "p2", "value": "CLOSED", "else_value": "OPEN", "rule": True, "prio": 2}]
    M["rule_else"] = s
    # a rule whose own name differs from the key it is registered under, and one without a name
    s = base(); node(s, "T")["diam"] = 5.0
    s["controls"] = [{"kind": "level", "node": "T", "rel": ">", "thr": 3.6, "link": "p2", "value": "CLOSED", "else_value": "OPEN", "rule": True, "prio": 2,
                      "name": "night_rule", "rule_name": "close_p2"},
                     {"kind": "time", "rel": ">=", "t": 4 * H, "link": "p4", "value": "CLOSED", "rule": True, "prio": 3, "name": "other_key"}]
    M["rule_names"] = s
    # a second tank joined directly to the first one (their limit controls interact)
    s = base(); s["nodes"].append(T("T2", elev=33.0, init=2.0, mn=0.5, mx=4.0, diam=4.0)); s["links"].append(P("p5", "T2", "T", L=150.0, D=0.15))
    M["tank_pair"] = s
    # a one-shot clock-time control created BEFORE start_clocktime is raised past its threshold (order of API calls)
    s = base(); s["opts"].update(clock=6 * H); s["late_options"] = True
    s["controls"] = [{"kind": "clock", "t": 2 * H, "link": "p2", "value": "CLOSED", "repeat": False}, {"kind": "clock", "t": 8 * H, "link": "p4", "value": "CLOSED", "repeat": False}]
    M["clock_once_late_start"] = s
    # links whose status at the END of a run differs from their initial status: a power pump, a head pump and a TCV that a time
    # control closes for good (the tank supplies the network afterwards)
    s = base(); s["nodes"][0]["head"] = 30.0; node(s, "T")["diam"] = 20.0
    s["links"][0] = PP("p1", "R", "J1", 2000.0)
    s["controls"] = [{"kind": "time", "t": 2 * H, "link": "p1", "value": "CLOSED"}]       # (as model pump_status, never reopened)
    M["ppump_closed_at_end"] = s
    s = base(); s["nodes"][0]["head"] = 10.0
    s["links"][0] = HP("p1", "R", "J1", [[0.05, 40.0]])
    s["links"][3] = V("p4", "J1", "J2", "TCV", 5.0, D=0.2)
    s["controls"] = [{"kind": "time", "t": 3 * H, "link": "p1", "value": "CLOSED"}, {"kind": "time", "t": 2 * H, "link": "p4", "value": "CLOSED"}]
    M["hpump_tcv_closed_at_end"] = s
    # simple controls whose instants lie BETWEEN two hydraulic steps (partial steps), written with '>=' (API only), '=' and
    # on the clock: whatever a condition object remembers of a run must not survive reset_initial_values
    s = base(); s["opts"].update(clock=2 * H)      # (hourly report rows: report_timestep ALL has no INP form, EpanetSimulator cannot write it)
    s["controls"] = [{"kind": "time", "rel": ">=", "t": H + 1800, "link": "p2", "value": "CLOSED"},
                     {"kind": "time", "t": 3 * H + 1200, "link": "p2", "value": "OPEN"},
                     {"kind": "clock", "t": 6 * H + 900, "link": "p4", "value": "CLOSED"}]
    node(s, "T")["diam"] = 30.0         # (a tank that keeps moving for the whole run, so that every shifted instant shows)
    M["offgrid_time_controls"] = s
    s = base(); s["opts"].update(dm="PDD", pmin=0.0, preq=30.0, pexp=0.5)
    M["pdd"] = s
    s = base(); s["nodes"][0]["head"] = 30.0; node(s, "T")["diam"] = 20.0
    s["links"][0] = PP("p1", "R", "J1", 2000.0, status="CLOSED")
    s["controls"] = [{"kind": "time", "t": 2 * H, "link": "p1", "value": "OPEN"}]
    s["via_reset"] = False      # built through the API only
    M["closed_pump_api"] = s
    s = base(); s["links"][3] = V("p4", "J1", "J2", "TCV", 5.0, D=0.2, K=2.0, status="CLOSED")
    s["links"][1] = V("p2", "J1", "J2", "PRV", 30.0, D=0.3, K=2.0, status="OPEN")
    s["controls"] = [{"kind": "time", "t": 3 * H, "link": "p4", "value": "OPEN"}]
    s["via_reset"] = False
    M["closed_valve_api"] = s
    s = base(); node(s, "T")["vcurve"] = [[0.0, 0.0], [2.0, 100.0], [4.0, 350.0], [7.0, 600.0]]
    M["vcurve"] = s
    s = base()
    s["nodes"].append(J("J3", 2.0, [[0.004, None, None]]))
    s["links"].append(P("p5", "J2", "J3", status="CLOSED"))
    s["controls"] = [{"kind": "time", "t": 2 * H, "link": "p5", "value": "OPEN"}, {"kind": "time", "t": 4 * H, "link": "p5", "value": "CLOSED"}]
    M["isolated_start_and_end"] = s
    s = base(); s["nodes"][0]["head"] = 30.0; node(s, "T")["diam"] = 20.0
    s["links"][0] = PP("p1", "R", "J1", 2000.0)
    s["controls"] = [{"kind": "time", "t": 2 * H, "link": "p1", "attr": "base_speed", "value": 0.8}]
    M["pump_speed_control"] = s
    s = base(); s["nodes"][0]["head"] = 10.0
    s["links"][0] = HP("p1", "R", "J1", [[0.0, 60.0], [0.05, 50.0], [0.1, 20.0]])
    M["hpump_curve"] = s
    M["pattern"] = base()
    # a head pump pushed beyond the end of its curve by gravity (legal: the simulator only warns about it)
    M["pump_beyond_curve"] = spec([R("R", 50.0), J("J1", 0.0, [[0.005, "P1", None]]), J("J2", 5.0, [[0.005, None, None]]), R("R2", 10.0)],
                                  [HP("p1", "R", "J1", [[0.01, 20.0]]), P("p2", "J1", "J2"), P("p3", "J2", "R2")],
                                  OPTS(dur=3 * H), patterns={"P1": [1.0, 1.6, 0.6]})
    # time options the simulator has to adjust for itself (report step shorter than / not a multiple of the hydraulic step)
    s = base(); s["opts"].update(hyd=3600, rep=1800)
    M["report_lt_hydraulic"] = s
    s = base(); s["opts"].update(hyd=3600, rep=5400)
    M["report_not_multiple"] = s
    return M


def _edit_spec(s, name):
    """the edited model as a spec (what a user would build from scratch)"""
    s = clone(s)
    if name == "pipe_status":
        link(s, "p4")["D"] = 0.3
    elif name == "hpump_curve":
        link(s, "p1")["curve"] = [[0.0, 70.0], [0.04, 55.0], [0.08, 20.0]]
    elif name == "pattern":
        s["patterns"]["P1"] = [0.5, 2.0, 1.0, 1.5]
    elif name == "vcurve":
        node(s, "T")["vcurve"] = [[0.0, 0.0], [3.0, 120.0], [7.0, 600.0]]
    elif name == "pdd":
        node(s, "J2")["preq"] = 12.0
    elif name == "leak":
        node(s, "J2")["leak"] = {"area": 9e-4, "cd": 0.6, "start": 2 * H, "end": 4 * H}
    elif name == "prv_setting":
        link(s, "p2")["setting"] = 22.0
    elif name == "valve_status_setting":
        link(s, "p4")["status"] = "CLOSED"
    elif name == "level_controls":
        node(s, "T")["init"] = 4.5
    else:
        raise KeyError(name)
    return s


def _edit_api(wn, name):
    """the same edit through the public API on a model that may have been simulated before"""
    if name == "pipe_status":
        wn.get_link("p4").diameter = 0.3
    elif name == "hpump_curve":
        wn.get_curve(wn.get_link("p1").pump_curve_name).points[:] = [(0.0, 70.0), (0.04, 55.0), (0.08, 20.0)]      # in place
    elif name == "pattern":
        wn.get_pattern("P1").multipliers = [0.5, 2.0, 1.0, 1.5]
    elif name == "vcurve":
        wn.get_curve(wn.get_node("T").vol_curve_name).points = [(0.0, 0.0), (3.0, 120.0), (7.0, 600.0)]
    elif name == "pdd":
        wn.get_node("J2").required_pressure = 12.0
    elif name == "leak":
        j = wn.get_node("J2")
        j.remove_leak(wn)
        j.add_leak(wn, 9e-4, 0.6, 2 * H, 4 * H)
    elif name == "prv_setting":
        wn.get_link("p2").initial_setting = 22.0            # initial values: take effect with the reset that follows
    elif name == "valve_status_setting":
        wn.get_link("p4").initial_status = "CLOSED"
    elif name == "level_controls":
        wn.get_node("T").init_level = 4.5
    else:
        raise KeyError(name)


EDITABLE = ("pipe_status", "hpump_curve", "pattern", "vcurve", "pdd", "leak", "prv_setting", "valve_status_setting", "level_controls")


def cases(tier):
    depth = 3 if tier == "quick" else 4
    out = []
    for name in models():
        ops = OPS + (["edit"] if name in EDITABLE else [])
        for n in range(1, depth + 1):
            for h in itertools.product(ops, repeat=n):
                if h.count("runE20") > 1 or (h.count("runE20") and h.count("edit")):
                    continue        # the EPANET 2.0 file format: once per history
                if h.count("edit") > 1 or (h.count("edit") == 1 and (h[-1] == "edit" or h.count("copy") or h.count("reload") or h.count("runE") > 1)):
                    continue        # one edit per history, judged by the runs that follow it; kept small: no copy / reload next to an edit
                # histories that never simulate observe nothing new beyond their prefixes: keep those ending in a run,
                # and every history of full depth (the invariant is evaluated after every step anyway)
                if h[-1] not in ("runW", "runWs", "runE", "runE20") and n < depth:
                    continue
                # runWs needs an earlier WNTRSimulator run on the same model object (no copy / reload in between)
                bad = False
                have = False
                for o in h:
                    if o == "runWs" and not have:
                        bad = True
                    if o in ("runW", "runWs"):
                        have = True
                    if o in ("copy", "reload"):
                        have = False
                if bad:
                    continue
                out.append({"model": name, "ops": list(h)})
    return out


def normd(wn):
    import wntr
    return json.loads(json.dumps(wntr.network.to_dict(wn), default=str, sort_keys=True))


def first_diff(a, b, path=""):
    if isinstance(a, dict) and isinstance(b, dict):
        for k in sorted(set(a) | set(b)):
            r = first_diff(a.get(k, "<missing>"), b.get(k, "<missing>"), path + "/" + str(k))
            if r:
                return r
        return None
    if isinstance(a, list) and isinstance(b, list):
        if len(a) != len(b):
            return path, len(a), len(b)
        for i, (x, y) in enumerate(zip(a, b)):
            lab = x.get("name", i) if isinstance(x, dict) else i
            r = first_diff(x, y, "%s[%s]" % (path, lab))
            if r:
                return r
        return None
    if a != b:
        return path, a, b
    return None


_SIM = {}


def run_w(wn, s, reuse=False):
    import wntr, warnings
    if reuse and _SIM.get("wn") is wn:
        sim = _SIM["sim"]
    else:
        sim = wntr.sim.WNTRSimulator(wn)
    _SIM.clear()
    _SIM.update(wn=wn, sim=sim)
    with warnings.catch_warnings(record=True) as w:
        warnings.simplefilter("always")
        import scipy.sparse.linalg as spl
        warnings.filterwarnings("error", "Matrix is exactly singular", spl.MatrixRankWarning)
        res = sim.run_sim(solver_options={"TOL": 1e-10})
    return wrap(res, wn, [str(x.message) for x in w])


def run_e(wn, version=2.2):
    import wntr, warnings, os
    with warnings.catch_warnings():
        warnings.simplefilter("ignore")
        sim = wntr.sim.EpanetSimulator(wn)
        res = sim.run_sim(file_prefix="c11_%d" % os.getpid(), version=version)
    return wrap(res, wn, [])


def tables_equal(a, b, tol, rel=0.0):
    import numpy as np
    if a.times != b.times:
        return "reported times %s vs %s" % (a.times[:6], b.times[:6])
    for grp, keys in (("node", ("head", "demand", "pressure")), ("link", ("flowrate", "status"))):
        for k in keys:
            A, B = getattr(a, grp).get(k), getattr(b, grp).get(k)
            if A is None or B is None:
                continue
            for n in A:
                if n not in B:
                    return "%s %s missing" % (k, n)
                d = np.abs(A[n] - B[n])
                lim = tol + rel * np.maximum(np.abs(A[n]), np.abs(B[n]))
                bad = (d > lim) & ~(np.isnan(A[n]) & np.isnan(B[n]))
                if bad.any():
                    j = int(np.argmax(bad))
                    return "%s of %s at t=%d: %.9g vs %.9g" % (k, n, a.times[j], A[n][j], B[n][j])
    return None


def run_case(c):
    import wntr, os, tempfile
    s = clone(models()[c["model"]])
    viol, counts = [], {"transitions": 0, "runs": 0}
    wn = build(s)
    d0 = normd(wn)
    fresh = True
    refW = refE = None
    tag = c["model"]
    # reference runs on separate fresh builds
    try:
        refW = run_w(build(s), s)
        if refW.error:
            refW = None
    except NotImplementedError:
        refW = "refused"
    for i, op in enumerate(c["ops"]):
        counts["transitions"] += 1
        pre = "after %s" % c["ops"][:i + 1]
        try:
            if op in ("runW", "runWs"):
                if refW == "refused":
                    try:
                        run_w(wn, s)
                        viol.append({"key": "refusal-inconsistent:%s" % tag, "what": "%s: WNTRSimulator refused the fresh model but ran it now" % pre})
                    except NotImplementedError:
                        pass
                    fresh = False
                else:
                    r = run_w(wn, s, reuse=(op == "runWs"))
                    counts["runs"] += 1
                    if fresh and refW is not None:
                        if r.error:
                            viol.append({"key": "fresh-run-fails:%s" % tag, "what": "%s: the run on a fresh model does not converge although the first one did" % pre})
                        else:
                            m = tables_equal(r, refW, 1e-9)
                            if m:
                                viol.append({"key": "rerun-differs:%s:%s" % (tag, "reset" if "reset" in c["ops"][:i] else ("reload" if "reload" in c["ops"][:i] else ("copy" if "copy" in c["ops"][:i] else "initial"))),
                                             "what": "%s: WNTRSimulator on a fresh model differs from the first run: %s" % (pre, m)})
                    fresh = False
            elif op == "runE":
                r = run_e(wn)
                counts["runs"] += 1
                if refE is None:
                    refE = run_e(build(s))
                m = tables_equal(r, refE, 1e-6, 1e-5)
                if m:
                    viol.append({"key": "epanet-run-differs:%s" % tag, "what": "%s: EpanetSimulator result differs from its result on the initial model: %s" % (pre, m)})
            elif op == "runE20":
                r = run_e(wn, 2.0)
                counts["runs"] += 1
                m = tables_equal(r, run_e(build(s), 2.0), 1e-6, 1e-5)
                if m:
                    viol.append({"key": "epanet20-run-differs:%s" % tag, "what": "%s: EpanetSimulator(version=2.0) result differs from its result on the initial model: %s" % (pre, m)})
            elif op == "edit":
                # ONE definition edit through the public API; from here on the model must behave like one built with the
                # edited value from scratch (definition, WNTR results on fresh states, EPANET results)
                _edit_api(wn, c["model"])
                s = _edit_spec(s, c["model"])
                d0 = normd(build(s))
                refW = run_w(build(s), s)
                refW = None if refW.error else refW
                refE = None
                tag = c["model"] + ":edited"
                wn.reset_initial_values()       # the documented way to simulate an edited model again from time 0
                fresh = True
            elif op == "reset":
                wn.reset_initial_values()
                fresh = True
            elif op == "copy":
                wn = copy.deepcopy(wn)
            elif op == "reload":
                fd, pth = tempfile.mkstemp(suffix=".json", dir=".")
                os.close(fd)
                try:
                    wntr.network.write_json(wn, pth)
                    wn = wntr.network.read_json(pth)
                finally:
                    os.unlink(pth)
                fresh = True
        except Exception as e:  # noqa
            import traceback
            viol.append({"key": "crash:%s:%s:%s" % (op, type(e).__name__, tag), "what": "%s: %s raised %s: %s" % (pre, op, type(e).__name__, str(e)[:150]),
                         "detail": traceback.format_exc()[-1500:]})
            break
        d = normd(wn)
        r = first_diff(d0, d)
        if r:
            import re
            cls = re.sub(r"\[[^\]]*\]", "[]", r[0])
            viol.append({"key": "definition-changed:%s:%s" % (op, cls), "what": "%s: to_dict differs from the initial dictionary at %s: %r -> %r" % (pre, r[0], r[1], r[2])})
            break
    nruns = sum(1 for o in c["ops"] if o in ("runW", "runWs", "runE", "runE20"))
    if "edit" in c["ops"]:
        i = c["ops"].index("edit")
        nruns = 2 if any(o.startswith("run") for o in c["ops"][:i]) and any(o.startswith("run") for o in c["ops"][i:]) else 0
    seen, out = set(), []
    for v in viol:
        if v["key"] not in seen:
            seen.add(v["key"]); out.append(v)
    return {"viol": out[:4], "nontrivial": nruns >= 2, "outcome": "%s:%d" % (c["model"], nruns), "counts": counts}


def run(run_, tier, seed):
    from ..main import generic
    import sys
    generic(sys.modules[__name__], run_, tier, seed)
    specs = cases(tier)
    prefixes = set()
    for c in specs:
        for i in range(len(c["ops"]) + 1):
            prefixes.add((c["model"], tuple(c["ops"][:i])))
    run_.extra.update(states=len(prefixes), transitions=run_.counts.get("transitions", 0),
                      traces_validated_against_impl=len(specs), max_depth=max(len(c["ops"]) for c in specs))
