"""C18 - valve segmentation is exactly the partition induced by the valve layer (exhaustive over small graphs x layers)."""
import itertools
from ..graphs import multigraphs

ID = "C18"
LEVEL = "exploration"
RULE = ("ALL multigraphs (connected or not, isolated nodes, dead ends, <=2 parallel links per pair; one representative per "
        "isomorphism class) with <=4 nodes and <=4 links (quick) / <=5 nodes and <=5 links (thorough) x EVERY subset of the 2m "
        "(link, end-node) valve positions, plus every layer of <=3 valves with one row duplicated (right after the original and "
        "at the end); link orientation alternates.  oracle: union-find partition over nodes and links (a link is joined to an end "
        "node iff no valve sits on that incidence), label positivity, segment sizes, and num_surround / demand_increase / "
        "length_increase recomputed from the reference partition with demand/length alphabets {0,1,2.5}.  non-trivial: a layer "
        "that induces >= 2 segments")
ASSUMPTIONS = ["num_surround counts every other valve (row of the de-duplicated layer) whose link or node lies in one of the two segments of the valve",
               "self-loops are not part of the space"]

VALS = [0.0, 1.0, 2.5]


def cases(tier):
    nmax, lmax = (4, 4) if tier == "quick" else (5, 5)
    out = []
    for n in range(1, nmax + 1):
        for edges in multigraphs(0, n, lmax, max_mult=2, no_fixed_fixed=False, min_links=0, connected=False):
            if 2 * len(edges) >= 8:
                # 2^8 .. 2^10 layers: one case per choice of valves at the first three incidences (keeps a case far below the horizon)
                for bits in itertools.product((0, 1), repeat=3):
                    out.append({"n": n, "edges": [list(e) for e in edges], "part": list(bits)})
            else:
                out.append({"n": n, "edges": [list(e) for e in edges]})
    return out


class UF(object):
    def __init__(self):
        self.p = {}

    def find(self, x):
        self.p.setdefault(x, x)
        while self.p[x] != x:
            self.p[x] = self.p[self.p[x]]
            x = self.p[x]
        return x

    def union(self, a, b):
        self.p[self.find(a)] = self.find(b)


def reference(n, edges, layer):
    """layer: list of (link index, node index).  returns element -> class representative for ('N',i) / ('L',j)."""
    uf = UF()
    for i in range(n):
        uf.find(("N", i))
    valved = set(layer)
    for j, (a, b) in enumerate(edges):
        uf.find(("L", j))
        for v in (a, b):
            if (j, v) not in valved:
                uf.union(("L", j), ("N", v))
    return uf


def run_layer(n, edges, layer, dup=None, names="plain", partial=False):
    """one call of valve_segments (+ attributes) on the real code; returns (violations, nsegments)."""
    import networkx as nx, pandas as pd, warnings
    import wntr
    # element names: plain (n0, e0), names that contain the prefixes valve_segments uses internally, and node and link
    # names drawn from the same strings (as in EPANET's example networks, where node 10 and link 10 coexist)
    if names == "plain":
        nname, ename = (lambda i: "n" + str(i)), (lambda j: "e" + str(j))
    elif names == "prefix":
        nname, ename = (lambda i: ("N_%d" if i % 2 == 0 else "TOWN_%dL_") % i), (lambda j: ("L_%d" if j % 2 == 0 else "WELL_LINE%dN_") % j)
    else:
        nname, ename = (lambda i: "%d" % i), (lambda j: "%d" % j)
    G = nx.MultiDiGraph()
    for i in range(n):
        G.add_node(nname(i))
    for j, (a, b) in enumerate(edges):
        if j % 2 == 0:
            G.add_edge(nname(a), nname(b), key=ename(j))
        else:
            G.add_edge(nname(b), nname(a), key=ename(j))
    rows = [{"link": ename(j), "node": nname(v)} for j, v in layer]
    if dup is not None and rows:
        k, where = dup
        if where == "after":
            rows.insert(k + 1, dict(rows[k]))
        else:
            rows.append(dict(rows[k]))
    vl = pd.DataFrame(rows, columns=["link", "node"])
    viol = []
    tag = ("dup:" if dup is not None else "") + ("" if names == "plain" else "names-%s:" % names) + ("partial-tables:" if partial else "")
    with warnings.catch_warnings():
        warnings.simplefilter("ignore")
        ns, ls, sizes = wntr.metrics.valve_segments(G, vl)
    uf = reference(n, edges, layer)
    got = {}
    for i in range(n):
        if nname(i) not in ns.index:
            return [{"key": tag + "missing-node", "what": "node %s has no segment (index %s)" % (nname(i), list(ns.index)[:6])}], 0
        got[("N", i)] = int(ns[nname(i)])
    for j in range(len(edges)):
        if ename(j) not in ls.index:
            return [{"key": tag + "missing-link", "what": "link %s has no segment (index %s)" % (ename(j), list(ls.index)[:6])}], 0
        got[("L", j)] = int(ls[ename(j)])
    if len(ns) != n or len(ls) != len(edges):
        viol.append({"key": tag + "extra-elements", "what": "segment series have %d nodes / %d links for a graph with %d / %d" % (len(ns), len(ls), n, len(edges))})
    if any(v <= 0 for v in got.values()):
        viol.append({"key": tag + "label-not-positive", "what": "labels %s" % got})
    els = sorted(got)
    for a, b in itertools.combinations(els, 2):
        same_ref = uf.find(a) == uf.find(b)
        same_got = got[a] == got[b]
        if same_ref != same_got:
            viol.append({"key": tag + ("merged" if same_got else "split"),
                         "what": "%s%d and %s%d are %s by valve_segments but %s by the valve layer %s" % (
                             a[0], a[1], b[0], b[1], "in one segment" if same_got else "in different segments",
                             "separated" if same_got else "joined without passing a valve", layer)})
            break
    nseg = len(set(uf.find(e) for e in els))
    if not viol:
        for lab in set(got.values()):
            en = sum(1 for e in els if e[0] == "N" and got[e] == lab)
            el = sum(1 for e in els if e[0] == "L" and got[e] == lab)
            try:
                gn, gl = int(sizes.loc[lab, "node"]), int(sizes.loc[lab, "link"])
            except Exception as ex:  # noqa
                viol.append({"key": tag + "sizes", "what": "segment %d missing from seg_sizes (%s)" % (lab, type(ex).__name__)})
                break
            if (gn, gl) != (en, el):
                viol.append({"key": tag + "sizes", "what": "segment %d: seg_sizes says %d nodes / %d links, members are %d / %d" % (lab, gn, gl, en, el)})
                break
        if len(sizes) != len(set(got.values())):
            viol.append({"key": tag + "sizes", "what": "seg_sizes has %d rows for %d segments" % (len(sizes), len(set(got.values())))})
    if viol or not layer:
        return viol, nseg
    # ---- attributes, on the frame as valve_segments left it (duplicates dropped in place)
    # partial: the attribute tables cover only part of the elements, as the documented inputs do (average_expected_demand
    # lists junctions only, query_link_attribute('length') pipes only); an element without an entry contributes nothing
    has_d = lambda i: not (partial and i % 3 == 2)
    has_l = lambda j: not (partial and j % 2 == 1)
    LV = [0.5, 1.0, 2.5] if partial else VALS        # (all lengths non-zero in the partial run: a zero side hides a lost side)
    dem = pd.Series({nname(i): VALS[i % 3] for i in range(n) if has_d(i)})
    ln = pd.Series({ename(j): LV[(j + 1) % 3] for j in range(len(edges)) if has_l(j)})
    try:
        with warnings.catch_warnings():
            warnings.simplefilter("ignore")
            attr = wntr.metrics.valve_segment_attributes(vl, ns, ls, dem, ln)
    except Exception as ex:  # noqa
        return [{"key": tag + "attributes-crash:%s" % type(ex).__name__,
                 "what": "valve_segment_attributes raised %s: %s on layer %s%s" % (type(ex).__name__, str(ex)[:80], layer, " with duplicated row %s" % (dup,) if dup else "")}], nseg
    if len(attr) != len(layer):
        viol.append({"key": tag + "attributes-rows", "what": "%d attribute rows for %d distinct valves" % (len(attr), len(layer))})
        return viol, nseg
    seg = lambda e: uf.find(e)
    # rows in the order of the de-duplicated frame == order of `layer`
    for k, (j, v) in enumerate(layer):
        sn, sl = seg(("N", v)), seg(("L", j))
        row = attr.iloc[k]
        if sn == sl:
            exp = (0, 0.0, 0.0)
        else:
            both = (sn, sl)
            cnt = sum(1 for k2, (j2, v2) in enumerate(layer) if k2 != k and (seg(("L", j2)) in both or seg(("N", v2)) in both))
            dn = sum(VALS[i % 3] for i in range(n) if seg(("N", i)) == sn and has_d(i))
            dl = sum(VALS[i % 3] for i in range(n) if seg(("N", i)) == sl and has_d(i))
            l_n = sum(LV[(jj + 1) % 3] for jj in range(len(edges)) if seg(("L", jj)) == sn and has_l(jj))
            l_l = sum(LV[(jj + 1) % 3] for jj in range(len(edges)) if seg(("L", jj)) == sl and has_l(jj))
            ed = 0.0 if dn == 0 and dl == 0 else (dn + dl) / max(dn, dl) - 1
            el = 0.0 if l_n == 0 and l_l == 0 else (l_n + l_l) / max(l_n, l_l) - 1
            exp = (cnt, ed, el)
        gotr = (int(row["num_surround"]), float(row["demand_increase"]), float(row["length_increase"]))
        for name, g, e in zip(("num_surround", "demand_increase", "length_increase"), gotr, exp):
            if abs(g - e) > 1e-12:
                viol.append({"key": tag + "attr:%s" % name, "what": "valve %d (link e%d, node n%d) of layer %s: %s = %r, expected %r" % (k, j, v, layer, name, g, e)})
        if viol:
            break
    # the optional arguments one at a time: the columns asked for (and only those) carry the same values as in the full table
    if not viol and len(layer) <= 2:
        for kw, cols in (({}, ["num_surround"]), ({"demand": dem}, ["num_surround", "demand_increase"]), ({"length": ln}, ["num_surround", "length_increase"])):
            try:
                with warnings.catch_warnings():
                    warnings.simplefilter("ignore")
                    a2 = wntr.metrics.valve_segment_attributes(vl, ns, ls, **kw)
            except Exception as ex:  # noqa
                viol.append({"key": tag + "attributes-optional-crash:%s" % type(ex).__name__, "what": "valve_segment_attributes(%s) raised %s: %s on layer %s" % (sorted(kw), type(ex).__name__, str(ex)[:80], layer)})
                break
            if sorted(a2.columns) != sorted(cols) or any(abs(float(a2[c_].iloc[k]) - float(attr[c_].iloc[k])) > 1e-12 for c_ in cols if c_ in a2.columns for k in range(len(layer))):
                viol.append({"key": tag + "attributes-optional-columns", "what": "valve_segment_attributes with only %s returns columns %s = %s, the full table has %s" % (
                    sorted(kw) or "the segments", list(a2.columns), a2.values.tolist(), attr[cols].values.tolist())})
                break
    return viol, nseg


def run_case(s):
    n, edges = s["n"], [tuple(e) for e in s["edges"]]
    if "layer" in s:      # replay of a single layer
        v, _ = run_layer(n, edges, [tuple(x) for x in s["layer"]], tuple(s["dup"]) if s.get("dup") else None, s.get("names", "plain"), bool(s.get("partial")))
        return {"viol": v}
    inc = [(j, v) for j, (a, b) in enumerate(edges) for v in (a, b)]
    viol, seen = [], set()
    counts = {"layers": 0, "layers_with_dup": 0, "multi_segment_layers": 0}
    for r in range(len(inc) + 1):
        for layer in itertools.combinations(inc, r):
            layer = list(layer)
            if s.get("part") is not None and [int(x in layer) for x in inc[:3]] != list(s["part"]):
                continue
            variants = [None]
            if 1 <= len(layer) <= 3:
                variants += [(k, w) for k in range(len(layer)) for w in ("after", "end")]
            for dup, names, partial in [(d, "plain", False) for d in variants] + [(None, "prefix", False), (None, "shared", False), (None, "plain", True)]:
                v, nseg = run_layer(n, edges, layer, dup, names, partial)
                counts["layers"] += 1
                if dup:
                    counts["layers_with_dup"] += 1
                if nseg >= 2:
                    counts["multi_segment_layers"] += 1
                for x in v:
                    if x["key"] not in seen:
                        seen.add(x["key"])
                        x["spec"] = {"n": n, "edges": s["edges"], "layer": [list(q) for q in layer], "dup": list(dup) if dup else None, "names": names, "partial": partial}
                        viol.append(x)
    return {"viol": viol, "counts": counts, "nontrivial": counts["multi_segment_layers"] > 0,
            "outcome": "segments>1:%d" % min(counts["multi_segment_layers"], 1), "bulk": counts["layers"], "bulk_nontrivial": counts["multi_segment_layers"]}


def run(run_, tier, seed):
    from .. import pool
    specs = cases(tier)
    run_.sample(specs)
    res = pool.run_cases(run_case, specs, seed=seed, chunksize=1)
    for s, r in zip(specs, res):
        run_.evaluations += r.get("bulk", 1)
        run_.nontrivial_extra += r.get("bulk_nontrivial", 0)
        o = r.get("outcome")
        if o:
            run_.outcomes[o] = run_.outcomes.get(o, 0) + 1
        for k, n in (r.get("counts") or {}).items():
            run_.count(k, n)
        for v in r.get("viol") or []:
            run_.violation(v["key"], v["what"], v.get("spec", s), v.get("detail"))
    run_.extra["graphs"] = len(specs)
    run_.extra["graph_bound"] = {"quick": "<=4 nodes, <=4 links", "thorough": "<=5 nodes, <=5 links"}[tier]
