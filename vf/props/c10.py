"""C10 - pausing, pickling and restarting a simulation equals running it uninterrupted."""
import itertools, pickle
from ..net import *

ID = "C10"
LEVEL = "exploration"
RULE = ("network R-p1-J1-p2-J2-p3-T (+ parallel p4 so that closing p2 isolates nothing) with a demand pattern, 8 h, hourly steps, "
        "carrying each ONE of the features {none, time control, off-grid time control, clock-time control with start_clocktime, "
        "tank-level control pair, pressure control, rule on time, rule on level with ELSE, rule on a junction pressure with ELSE, rule true only in an early window, "
        "rule with a <= time bound, rules and level controls in a model with start_clocktime 3 h / 22 h, leak window spanning the pause, PDD, TCV with a setting control, 30-min hydraulic step, a second tank joined directly to the first, interpolated patterns with a 2 h pattern step, repeating simple time controls, a dead end that is isolated / reconnected / isolated again, a dead end cut off by the simulator's own status logic (emptied tank; wrong-way check valve) and reconnected by a bypass}; "
        "histories: EVERY subset of <= 1 (quick) / <= 3 (thorough) pause instants of the hourly grid x "
        "pickle round trip {no, after every pause} x {new simulator object per part}; thorough adds all pairs of features with "
        "every single pause and four double pauses, with and without pickling.  oracle: index of every continued part starts at the first hydraulic step after the pause, indices strictly "
        "increase across parts, concatenated heads / demands / flows / statuses equal the uninterrupted run (1e-6).  non-trivial: "
        ">= 1 pause and the uninterrupted run has >= 1 status change or tank-level change after the first pause")
ASSUMPTIONS = ["parts are run by raising options.time.duration and calling run_sim on a new WNTRSimulator, as test_multiple_simulations does",
               "both the uninterrupted run and the parts are solved with NewtonSolver TOL=1e-10 so that two converged solutions of one step differ by far less than the 1e-6 comparison tolerance (a restart begins Newton from other initial values)", "results are compared on the report grid (report step == hydraulic step) plus 'ALL' for the off-grid feature"]

H = 3600


def base():
    return spec([R("R", 50.0), J("J1", 0.0, [[0.01, "P1", None]]), J("J2", 5.0, [[0.03, "P1", None]]), T("T", elev=30.0, init=3.0, mn=0.5, mx=6.0, diam=8.0)],
                [P("p1", "R", "J1"), P("p2", "J1", "J2"), P("p3", "J2", "T"), P("p4", "J1", "J2", L=900.0, D=0.2)],
                OPTS(dur=8 * H), patterns={"P1": [1.0, 2.0, 0.5, 1.5]})


def feature(s, f):
    o = s["opts"]
    c = s["controls"]
    if "+clock" in f:           # the same feature in a model that does not start at midnight
        f, hrs = f.split("+clock")
        o["clock"] = int(hrs) * H
    if f == "none":
        pass
    elif f == "time":
        c += [{"kind": "time", "t": 3 * H, "link": "p2", "value": "CLOSED"}, {"kind": "time", "t": 5 * H, "link": "p2", "value": "OPEN"}]
    elif f == "time_offgrid":
        c += [{"kind": "time", "t": 2 * H + 1200, "link": "p2", "value": "CLOSED"}, {"kind": "time", "t": 5 * H + 600, "link": "p2", "value": "OPEN"}]
        o["rep"] = "ALL"
    elif f == "clock":
        o["clock"] = 3 * H
        c += [{"kind": "clock", "t": 6 * H, "link": "p2", "value": "CLOSED"}, {"kind": "clock", "t": 9 * H, "link": "p2", "value": "OPEN"}]
    elif f == "level_pair":
        node(s, "T")["diam"] = 5.0
        c += [{"kind": "level", "node": "T", "rel": ">", "thr": 4.0, "link": "p1", "value": "CLOSED"},
              {"kind": "level", "node": "T", "rel": "<", "thr": 2.0, "link": "p1", "value": "OPEN"}]
        o["rep"] = "ALL"
    elif f == "pressure":
        c += [{"kind": "pressure", "node": "J2", "rel": "<", "thr": 27.5, "link": "p4", "value": "CLOSED"}]
    elif f == "rule_time":
        c += [{"kind": "time", "rel": ">=", "t": 3 * H, "link": "p2", "value": "CLOSED", "rule": True, "prio": 3}]
    elif f == "rule_level_else":
        node(s, "T")["diam"] = 5.0
        c += [{"kind": "level", "node": "T", "rel": ">", "thr": 3.6, "link": "p2", "value": "CLOSED", "else_value": "OPEN", "rule": True, "prio": 2}]
    elif f == "rule_pressure":
        # a rule on a solved quantity: the junction pressure follows the hourly demand pattern and crosses the threshold at
        # hydraulic steps, so the rule sees the new state one rule timestep after the solve
        c += [{"kind": "pressure", "node": "J2", "rel": "<", "thr": 42.0, "link": "p4", "value": "CLOSED", "else_value": "OPEN", "rule": True, "prio": 3}]
    elif f == "rule_early":
        # a rule whose condition holds only in an early window, undone later by a time control
        c += [{"kind": "time", "rel": "<", "t": 2 * H, "link": "p2", "value": "CLOSED", "rule": True, "prio": 3},
              {"kind": "time", "t": 3 * H, "link": "p2", "value": "OPEN"}]
    elif f == "rule_le":
        c += [{"kind": "time", "rel": "<=", "t": 4 * H, "link": "p4", "value": "CLOSED", "else_value": "OPEN", "rule": True, "prio": 3}]
    elif f == "leak":
        node(s, "J2")["leak"] = {"area": 5e-4, "cd": 0.75, "start": 2 * H, "end": 6 * H}
    elif f == "pdd":
        o.update(dm="PDD", pmin=0.0, preq=30.0, pexp=0.5)
    elif f == "tcv_setting":
        l = link(s, "p4")
        s["links"][s["links"].index(l)] = V("p4", "J1", "J2", "TCV", 5.0, D=0.2)
        c += [{"kind": "time", "t": 3 * H, "link": "p4", "attr": "setting", "value": 80.0}]
    elif f == "hyd30":
        o["hyd"] = 1800
    elif f == "reconnect":
        # a dead-end junction that is cut off at the start, reconnected at 3 h and cut off again at 6 h
        s["nodes"].append(J("J3", 2.0, [[0.005, None, None]]))
        s["links"].append(P("p5", "J2", "J3", status="CLOSED"))
        c += [{"kind": "time", "t": 3 * H, "link": "p5", "value": "OPEN"}, {"kind": "time", "t": 6 * H, "link": "p5", "value": "CLOSED"}]
    elif f == "tank_empties":
        # a dead end fed only by a small tank: the tank reaches its minimum level at about 1.6 h, the simulator closes its
        # outlet internally (no user control involved) and the dead end is isolated until a bypass is opened at 5 h
        s["nodes"].append(T("T2", elev=20.0, init=0.8, mn=0.5, mx=3.0, diam=10.0))
        s["nodes"].append(J("J3", 2.0, [[0.004, None, None]]))
        s["links"].append(P("p5", "T2", "J3"))
        s["links"].append(P("p6", "J2", "J3", status="CLOSED"))
        c += [{"kind": "time", "t": 5 * H, "link": "p6", "value": "OPEN"}]
    elif f == "cv_deadend":
        # a dead end behind a check valve that points the wrong way: closed by the simulator's own status logic from the
        # first solve on, opened for good when the demand turns into an inflow... never: it stays cut off, until a bypass opens at 4 h
        s["nodes"].append(J("J3", 2.0, [[0.004, None, None]]))
        s["links"].append(P("p5", "J3", "J2", cv=True))
        s["links"].append(P("p6", "J1", "J3", status="CLOSED"))
        c += [{"kind": "time", "t": 4 * H, "link": "p6", "value": "OPEN"}, {"kind": "time", "t": 6 * H, "link": "p6", "value": "CLOSED"}]
    elif f == "time_repeat":
        # API only: simple controls that repeat every 3 h of simulation time (close at 1 h, 4 h, 7 h; reopen at 2 h, 5 h, 8 h)
        c += [{"kind": "time", "t": 1 * H, "link": "p2", "value": "CLOSED", "repeat": 3 * H}, {"kind": "time", "t": 2 * H, "link": "p2", "value": "OPEN", "repeat": 3 * H}]
    elif f == "interp2h":
        # demands interpolated between the multipliers of a 2 h pattern step: they change at EVERY hydraulic step
        o["interp"] = True; o["pat"] = 2 * H
    elif f == "tank_pair":
        # a second tank joined directly to the first one (no junction in between), small enough to reach its limits
        s["nodes"].append(T("T2", elev=33.0, init=2.0, mn=0.5, mx=4.0, diam=4.0))
        s["links"].append(P("p5", "T2", "T", L=150.0, D=0.15))
        o["rep"] = "ALL"
    else:
        raise KeyError(f)
    return s


FEATURES = ["none", "time", "time_offgrid", "clock", "level_pair", "pressure", "rule_time", "rule_level_else", "rule_early", "rule_le",
            "leak", "pdd", "tcv_setting", "hyd30", "reconnect", "rule_pressure", "tank_empties", "cv_deadend",
            "rule_time+clock3", "rule_level_else+clock3", "rule_pressure+clock22", "level_pair+clock3", "rule_early+clock22", "tank_pair", "interp2h", "time_repeat"]


def cases(tier):
    out = []
    grid = list(range(1, 8))
    for f in FEATURES:
        sets = [()] + [(k,) for k in grid] + [(0,), (0, 3)]       # (0: a first segment of duration zero)
        if tier == "thorough":
            sets += list(itertools.combinations(grid, 2))
            sets += list(itertools.combinations(grid, 3))
            sets += [(0, a, b) for a, b in itertools.combinations(grid, 2) if b - a in (1, 3)]
        for ps in sets:
            for pk in (False, True):
                if not ps and pk:
                    continue
                out.append({"features": [f], "pauses": [p * H for p in ps], "pickle": pk})
    if tier == "thorough":
        for f, g in itertools.combinations(FEATURES[1:], 2):
            if {f, g} & {"level_pair", "rule_level_else"} == {"level_pair", "rule_level_else"}:
                continue
            if f == "clock" or g == "clock" or f == "hyd30" or g == "hyd30" or "+clock" in f or "+clock" in g:
                continue
            for ps in [(k,) for k in grid] + [(2, 3), (1, 4), (3, 6), (4, 5)]:
                for pk in (False, True):
                    out.append({"features": [f, g], "pauses": [k * H for k in ps], "pickle": pk})
    return out


def build_case(c):
    s = base()
    for f in c["features"]:
        s = feature(s, f)
    return s


def run_parts(s, pauses, do_pickle):
    import wntr, warnings
    wn = build(s)
    T_end = s["opts"]["dur"]
    parts = []
    for stop in list(pauses) + [T_end]:
        wn.options.time.duration = stop
        sim = wntr.sim.WNTRSimulator(wn)
        with warnings.catch_warnings(record=True) as w:
            warnings.simplefilter("always")
            res = sim.run_sim(solver_options={"TOL": 1e-10})
        parts.append(wrap(res, wn, [str(x.message) for x in w]))
        if do_pickle and stop != T_end:
            wn = pickle.loads(pickle.dumps(wn))
    return parts


def run_case(c):
    import numpy as np
    s = build_case(c)
    viol, counts = [], {}
    ref = run_parts(s, [], False)[0]
    if ref.error:
        return {"viol": [], "nontrivial": False, "outcome": "reference-not-converged", "counts": {"not_converged": 1}}
    if not c["pauses"]:
        return {"viol": [], "nontrivial": False, "outcome": "reference", "counts": {"reference_runs": 1}}
    parts = run_parts(s, c["pauses"], c["pickle"])
    counts["segments"] = len(parts)
    hyd = s["opts"]["hyd"]
    tag = "" if len(c["features"]) == 1 else "pair:"
    feat = "+".join(c["features"])
    prev_last = None
    all_times = []
    for i, p in enumerate(parts):
        if p.error:
            viol.append({"key": tag + "part-fails:%s" % feat, "what": "part %d (pauses %s, pickle=%s) stops with an error: %s" % (i, c["pauses"], c["pickle"], p.warnings[:1])})
            break
        if i > 0:
            pause = c["pauses"][i - 1]
            if not p.times:
                viol.append({"key": tag + "restart-empty:%s" % feat, "what": "continued part %d after the pause at %d reports nothing" % (i, pause)})
                break
            rep = s["opts"]["rep"]
            first_expected = (pause // rep + 1) * rep if rep != "ALL" else None      # first reported instant after the pause
            if p.times[0] <= pause:
                viol.append({"key": tag + "restart-revisits:%s" % feat, "what": "continued part after the pause at %d starts at t=%d (times %s): it revisits earlier times" % (pause, p.times[0], p.times[:5])})
                break
            if first_expected is not None and p.times[0] != first_expected:
                viol.append({"key": tag + "restart-first-step:%s" % feat, "what": "continued part after the pause at %d starts at t=%d, expected the first hydraulic step after the pause, %d" % (pause, p.times[0], first_expected)})
                break
        if any(b <= a for a, b in zip(p.times, p.times[1:])):
            viol.append({"key": tag + "index-not-increasing:%s" % feat, "what": "part %d has the index %s" % (i, p.times)})
            break
        all_times += p.times
    if not viol:
        if all_times != ref.times:
            viol.append({"key": tag + "steps-differ:%s" % feat, "what": "concatenated parts report %s, the uninterrupted run %s (pauses %s, pickle=%s)" % (all_times, ref.times, c["pauses"], c["pickle"])})
        else:
            for grp, key in (("node", "head"), ("node", "demand"), ("node", "leak_demand"), ("link", "flowrate"), ("link", "status"), ("link", "setting")):
                R_ = getattr(ref, grp)[key]
                for n in R_:
                    cat = np.concatenate([getattr(p, grp)[key][n] for p in parts])
                    d = np.abs(cat - R_[n])
                    d = d[~(np.isnan(cat) & np.isnan(R_[n]))]
                    if d.size and (np.isnan(d).any() or d.max() > 1e-6):
                        j = int(np.nanargmax(np.abs(cat - R_[n])))
                        viol.append({"key": tag + "values-differ:%s:%s" % (key, feat), "what": "%s of %s at t=%d: parts give %.9g, uninterrupted run %.9g (pauses %s, pickle=%s)" % (key, n, ref.times[j], cat[j], R_[n][j], c["pauses"], c["pickle"])})
                        break
                if viol:
                    break
    # non-trivial: something happens after the first pause in the reference run
    k0 = next((i for i, t in enumerate(ref.times) if t > c["pauses"][0]), len(ref.times))
    st = np.array([ref.link["status"][l] for l in ref.link["status"]])
    lv = ref.node["pressure"]["T"]
    nt = k0 < len(ref.times) and (np.abs(np.diff(st[:, max(k0 - 1, 0):], axis=1)).sum() > 0 or abs(lv[-1] - lv[max(k0 - 1, 0)]) > 1e-3)
    return {"viol": viol[:3], "nontrivial": bool(nt), "outcome": "%s:%d-pauses" % (feat if len(c["features"]) == 1 else "pair", len(c["pauses"])), "counts": counts}
