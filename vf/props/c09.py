"""C09 - junctions cut off from all sources are zeroed; connected ones never are; reconnecting restores results."""
import itertools
from ..graphs import multigraphs
from ..net import *

ID = "C09"
LEVEL = "exploration"
RULE = ("ALL connected multigraphs (<=2 parallel links per pair, canonical under junction relabelling) on 1-2 sources + <=3 "
        "(quick) / <=4 (thorough) junctions with <=5 / <=6 links x EVERY subset of initially closed links x schedules of "
        "<=1 (quick; <=2 on graphs with <=3 links) / <=2 (thorough, small graphs) time controls toggling a link; graphs whose reservoir and tank are also joined directly; variants with link 0 as head pump / TCV, run + reset + second run (judged) on the same simulator object / a new one, and a run paused at time 0 and continued (graphs with <= 4 links), and (graphs with <= 4 links; thorough <= 5) under the pressure-dependent demand model. "
        "oracle: reference reachability over reported statuses: isolated => demand=pressure=head=0 and zero flow on its "
        "links; connected => full requested demand and the run solves; no-tank graphs: every step equals the steady state "
        "of the same closed set. non-trivial: at least one junction isolated at some step and one connected at some step")


def graph_spec(nf, k, edges, closed, events, variant):
    names = ["R", "T"][:nf] + ["J%d" % (i + 1) for i in range(k)]
    nodes = [R("R", 50.0)] + ([T("T", elev=40.0, init=5.0, mn=0.0, mx=10.0, diam=15.0)] if nf == 2 else [])
    nodes += [J("J%d" % (i + 1), 0.0, [[0.01, None, None]]) for i in range(k)]
    links = []
    for i, (a, b) in enumerate(edges):
        a, b = (names[a], names[b]) if i % 2 == 0 else (names[b], names[a])
        st = "CLOSED" if i in closed else "OPEN"
        if i == 0 and variant == "pump":
            # a pump must point away from the source
            a, b = (a, b) if a in ("R", "T") else ((b, a) if b in ("R", "T") else (a, b))
            links.append(HP("l0", a, b, [[0.05, 30.0]], status=st))
        elif i == 0 and variant == "tcv":
            links.append(V("l0", a, b, "TCV", 20.0, status="CLOSED" if st == "CLOSED" else "ACTIVE"))
        else:
            links.append(P("l%d" % i, a, b, L=300.0, status=st))
    ctrls = []
    for j, (li, t) in enumerate(events):
        ctrls.append({"kind": "time", "t": t, "link": "l%d" % li, "value": "OPEN" if li in closed else "CLOSED"})
    o = OPTS(dur=3600 * (len(events) + 1))
    if variant == "pdd":
        o.update(dm="PDD", pmin=0.0, preq=20.0, pexp=0.5)      # pressures of connected junctions stay far above 20 m: full demand
    s = spec(nodes, links, o, controls=ctrls)
    s["id"] = {"graph": [nf, k, list(map(list, edges))], "closed": sorted(closed), "events": [list(e) for e in events], "variant": variant}
    return s


def cases(tier):
    out = []
    kmax, lmax = (3, 5) if tier == "quick" else (4, 6)
    for nf in (1, 2):
        for k in range(1, kmax + 1):
            for edges in multigraphs(nf, k, lmax):
                L = len(edges)
                small = k <= 3 and L <= 5
                for r in range(L + 1):
                    for closed in itertools.combinations(range(L), r):
                        closed = set(closed)
                        scheds = [()] + [((li, 3600),) for li in range(L)]
                        if (tier == "thorough" and small and L <= 4) or L <= 3:
                            # two toggles at different steps (e.g. a link opened while still cut off, its zone reconnected later)
                            scheds += [((a, 3600), (b, 7200)) for a in range(L) for b in range(L) if a != b]
                            scheds += [((a, 3600), (b, 3600)) for a in range(L) for b in range(a + 1, L)]      # both at one instant
                        for ev in scheds:
                            out.append(graph_spec(nf, k, edges, closed, ev, "pipe"))
                        if L <= 4 or (tier == "thorough" and small):
                            # the model is simulated, reset and simulated AGAIN on the same WNTRSimulator object / a new one:
                            # the second run is judged (every toggled link ends the first run in another state than it starts the second)
                            for li in range(L):
                                for mode in ("same-sim", "new-sim", "paused-at-0"):
                                    c = graph_spec(nf, k, edges, closed, ((li, 3600),), "pipe")
                                    c["rerun"] = mode
                                    c["id"]["rerun"] = mode
                                    out.append(c)
                        if (k <= 3 and L <= 4) or (tier == "thorough" and small):
                            # the same closures under the pressure-dependent demand model
                            for ev in [()] + [((li, 3600),) for li in range(L)]:
                                out.append(graph_spec(nf, k, edges, closed, ev, "pdd"))
                        if small or tier == "thorough" and L <= 5:
                            for variant in ("pump", "tcv"):
                                if variant == "tcv" and nf + k < 2:
                                    continue
                                for ev in ((), ((0, 3600),)):
                                    out.append(graph_spec(nf, k, edges, closed, ev, variant))
    # graphs in which the reservoir and the tank are ALSO joined directly (no junction in between): closures and single toggles
    for k in ((1, 2) if tier == "quick" else (1, 2, 3)):
        for edges in multigraphs(2, k, 4 if tier == "quick" else 5, no_fixed_fixed=False):
            if not any(a < 2 and b < 2 for a, b in edges):
                continue
            L = len(edges)
            for r in range(L + 1):
                for closed in itertools.combinations(range(L), r):
                    for ev in [()] + [((li, 3600),) for li in range(L)]:
                        c = graph_spec(2, k, edges, set(closed), ev, "pipe")
                        c["id"]["source_source_link"] = True
                        out.append(c)
    return out


def run_case(s):
    if s.get("rerun"):
        import wntr, warnings
        wn = build(s)
        if s["rerun"] == "paused-at-0":
            # a run paused right after time 0 and continued: the toggle at 1 h is the FIRST step of the continued part
            full = wn.options.time.duration
            wn.options.time.duration = 0
        sim = wntr.sim.WNTRSimulator(wn)
        with warnings.catch_warnings():
            warnings.simplefilter("ignore")
            first = sim.run_sim()
        if s["rerun"] == "paused-at-0":
            wn.options.time.duration = full
        else:
            wn.reset_initial_values()
        if first.error_code is not None:
            return {"viol": [], "nontrivial": False, "outcome": "first-run-not-converged", "counts": {"not_converged": 1}}
        if s["rerun"] == "same-sim":
            with warnings.catch_warnings(record=True) as w:
                warnings.simplefilter("always")
                import scipy.sparse.linalg as spl
                warnings.filterwarnings("error", "Matrix is exactly singular", spl.MatrixRankWarning)
                r = wrap(sim.run_sim(), wn, [])
            r.warnings = [str(x.message) for x in w]
        else:
            r = simulate(s, wn=wn)
    else:
        r = simulate(s)
    viol, counts = [], {}
    if r.error:
        return {"viol": [{"key": "not-solved", "what": "the simulator did not solve a network whose connected part is feasible: %s" % r.warnings[:1]}],
                "nontrivial": False, "outcome": "not-converged", "counts": {"not_converged": 1}}
    st, q = r.link["status"], r.link["flowrate"]
    dem, pres, head = r.node["demand"], r.node["pressure"], r.node["head"]
    inc = incidence(s)
    has_tank = any(n["t"] == "tank" for n in s["nodes"])
    any_iso = any_conn = False
    steady = {}
    for i, t in enumerate(r.times):
        closed = frozenset(l for l in st if st[l][i] == 0)
        conn = connected_to_source(s, closed)
        for n in s["nodes"]:
            if n["t"] != "junc":
                continue
            nn = n["n"]
            if nn not in conn:
                any_iso = True
                counts["isolated_checks"] = counts.get("isolated_checks", 0) + 1
                if dem[nn][i] != 0 or pres[nn][i] != 0 or head[nn][i] != 0:
                    viol.append({"key": "isolated-not-zeroed", "what": "junction %s is cut off at t=%d (closed %s) but reports demand=%.6g pressure=%.6g head=%.6g" % (nn, t, sorted(closed), dem[nn][i], pres[nn][i], head[nn][i])})
                    break
                fl = [(l, q[l][i]) for l, sg in inc[nn] if q[l][i] != 0]
                if fl:
                    viol.append({"key": "isolated-link-flow", "what": "link(s) %s of cut-off junction %s carry flow at t=%d" % (fl, nn, t)})
                    break
            else:
                any_conn = True
                counts["connected_checks"] = counts.get("connected_checks", 0) + 1
                # (PDD: above the required pressure the documented curve keeps a slope of 1e-11 per metre and the demand is a
                # solved variable: equal to the request within the solver tolerance)
                if abs(dem[nn][i] - 0.01) > (1e-12 if s["opts"]["dm"] == "DD" else 1e-8):
                    viol.append({"key": "connected-zeroed", "what": "junction %s has a path to a source at t=%d (closed %s) but reports demand %.6g instead of 0.01 (pressure %.6g)" % (nn, t, sorted(closed), dem[nn][i], pres[nn][i])})
                    break
        if viol:
            break
        if not has_tank and i > 0:
            # differential: the state after (re)connection equals the steady state of that closed set
            if closed not in steady:
                s2 = clone(s)
                s2["controls"] = []
                s2["opts"]["dur"] = 0
                for l in s2["links"]:
                    if l["n"] in closed:
                        l["status"] = "CLOSED"
                    elif l["status"] == "CLOSED":
                        l["status"] = "ACTIVE" if l["t"] == "TCV" else "OPEN"
                steady[closed] = simulate(s2)
            r2 = steady[closed]
            counts["steady_state_comparisons"] = counts.get("steady_state_comparisons", 0) + 1
            if r2.error:
                continue
            # a pump/CV status may legitimately differ; compare only if reported statuses agree
            if any(r2.link["status"][l][0] != st[l][i] for l in st):
                counts["steady_state_status_differs"] = counts.get("steady_state_status_differs", 0) + 1
                continue
            for l in q:
                lk = link(s, l)
                qa, qb = float(q[l][i]), float(r2.link["flowrate"][l][0])
                if lk["t"] == "pipe" and abs(hw_loss(qa, lk["L"], lk["D"], lk["C"], lk["K"])) < 5e-6 and \
                        abs(hw_loss(qb, lk["L"], lk["D"], lk["C"], lk["K"])) < 5e-6:
                    continue   # both flows are inside the band the Newton tolerance (1e-6 m of head) cannot resolve
                if abs(qa - qb) > 1e-6 + 1e-4 * abs(qa):
                    viol.append({"key": "reconnect-differs", "what": "t=%d closed %s: flow in %s is %.8g but %.8g in the network that starts in this configuration" % (t, sorted(closed), l, q[l][i], r2.link["flowrate"][l][0])})
                    break
            for n in head:
                if abs(head[n][i] - r2.node["head"][n][0]) > 1e-5:
                    viol.append({"key": "reconnect-differs", "what": "t=%d closed %s: head at %s is %.8g but %.8g in the network that starts in this configuration" % (t, sorted(closed), n, head[n][i], r2.node["head"][n][0])})
                    break
            if viol:
                break
    return {"viol": viol, "nontrivial": any_iso and any_conn, "outcome": "iso%d_conn%d_n%d" % (any_iso, any_conn, len(r.times)), "counts": counts}
